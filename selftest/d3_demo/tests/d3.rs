use fips204::ml_dsa_44;
use fips204::traits::{KeyGen, SerDes, Signer};

#[test]
fn get_public_key_on_accepted_key_does_not_panic() {
    let (_pk, sk) = ml_dsa_44::KG::keygen_from_seed(&[7u8; 32]);
    let mut bytes = sk.into_bytes();
    // t0 section starts after rho(32) K(32) tr(64) s1(4*96) s2(4*96): flip one bit of its first byte
    bytes[128 + 8 * 96] ^= 1;
    let sk2 = ml_dsa_44::PrivateKey::try_from_bytes(bytes).expect("every 13-bit t0 field is in range, the key is accepted");
    let r = std::panic::catch_unwind(move || sk2.get_public_key());
    assert!(r.is_ok(), "get_public_key panicked on a private key that deserialisation accepted");
}
