#!/usr/bin/env python3
"""mkmutant.py <out.diff> <file> <old-fragment> <new-fragment> : build a unified diff against /repo (applied nowhere)."""
import subprocess, sys, tempfile, shutil, os
out, rel, old, new = sys.argv[1:5]
d = tempfile.mkdtemp(prefix="mkmut-")
try:
    os.makedirs(os.path.join(d, "a", os.path.dirname(rel)), exist_ok=True)
    os.makedirs(os.path.join(d, "b", os.path.dirname(rel)), exist_ok=True)
    src = open(os.path.join("/repo", rel)).read()
    assert src.count(old) >= 1, "fragment not found"
    n = int(os.environ.get("OCCURRENCE", "1"))
    idx = -1
    for _ in range(n):
        idx = src.index(old, idx + 1)
    dst = src[:idx] + new + src[idx + len(old):]
    open(os.path.join(d, "a", rel), "w").write(src)
    open(os.path.join(d, "b", rel), "w").write(dst)
    r = subprocess.run(["diff", "-u", os.path.join("a", rel), os.path.join("b", rel)], cwd=d, capture_output=True, text=True)
    open(out, "w").write(r.stdout)
    print(r.stdout)
finally:
    shutil.rmtree(d)
