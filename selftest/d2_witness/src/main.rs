// Triage tool for finding D2 (not a check): builds an ML-DSA-87 (public key, signature) pair whose
// verification makes one row of  A_hat*z_hat - c_hat*t1_hat  sum past 2^31 inside inv_ntt.
// It compiles the repository's private modules unchanged via #[path].
#![allow(dead_code, unused_imports, unused_macros)]

#[path = "/repo/src/conversion.rs"]
mod conversion;
#[path = "/repo/src/encodings.rs"]
mod encodings;
#[path = "/repo/src/hashing.rs"]
mod hashing;
#[path = "/repo/src/helpers.rs"]
mod helpers;
#[path = "/repo/src/high_low.rs"]
mod high_low;
#[path = "/repo/src/ntt.rs"]
mod ntt;
#[path = "/repo/src/types.rs"]
mod types;

pub use types::Ph;
const Q: i32 = 8_380_417;
const ZETA: i32 = 1753;
const D: u32 = 13;

use helpers::{mat_vec_mul, mont_reduce, partial_reduce64, to_mont};
use types::{R, R0, T, T0};

const K: usize = 8;
const L: usize = 7;
const GAMMA1: i32 = 1 << 19;
const OMEGA: i32 = 75;
const TAU: i32 = 60;
const LAMBDA_DIV4: usize = 64;
const PK_LEN: usize = 2592;
const SIG_LEN: usize = 4627;
const M: usize = 4; // coset count: z_j = sum_t a_t X^(64 t)
const TOP: usize = 48;

fn modq(x: i64) -> i64 {
    x.rem_euclid(Q as i64)
}
fn powmod(mut b: i64, mut e: i64) -> i64 {
    let mut r = 1i64;
    b = modq(b);
    while e > 0 {
        if e & 1 == 1 {
            r = modq(r * b);
        }
        b = modq(b * b);
        e >>= 1;
    }
    r
}
fn inv(x: i64) -> i64 {
    powmod(x, Q as i64 - 2)
}

fn mat_inv(mut a: [[i64; M]; M]) -> [[i64; M]; M] {
    let mut b = [[0i64; M]; M];
    for i in 0..M {
        b[i][i] = 1;
    }
    for col in 0..M {
        let mut p = col;
        while a[p][col] == 0 {
            p += 1;
        }
        a.swap(p, col);
        b.swap(p, col);
        let iv = inv(a[col][col]);
        for j in 0..M {
            a[col][j] = modq(a[col][j] * iv);
            b[col][j] = modq(b[col][j] * iv);
        }
        for r in 0..M {
            if r != col && a[r][col] != 0 {
                let f = a[r][col];
                for j in 0..M {
                    a[r][j] = modq(a[r][j] - f * a[col][j]);
                    b[r][j] = modq(b[r][j] - f * b[col][j]);
                }
            }
        }
    }
    b
}

fn term(a_hat: i32, v: i64) -> i64 {
    // contribution of one NTT slot: mont_reduce(A[n] * to_mont(v))
    let tm = partial_reduce64(v << 32);
    mont_reduce(i64::from(a_hat) * i64::from(tm)) as i64
}

fn main() {
    let args: Vec<String> = std::env::args().collect();
    let seed: u8 = args.get(1).and_then(|s| s.parse().ok()).unwrap_or(0);
    let rho = [seed; 32];
    let cap_a_hat: [[T; L]; K] = hashing::expand_a::<false, K, L>(&rho);
    let c_tilde = [seed.wrapping_add(1); LAMBDA_DIV4];
    let c = hashing::sample_in_ball::<false>(TAU, &c_tilde);
    let c_hat = ntt::ntt(&[c]);
    let c_hat = &c_hat[0];

    // NTT images of the basis X^(64 t)
    let mut basis = [[0i64; 256]; M];
    for t in 0..M {
        let mut p = R0;
        p.0[64 * t] = 1;
        let h = ntt::ntt(&[p]);
        for n in 0..256 {
            basis[t][n] = modq(h[0].0[n] as i64);
        }
    }
    // cosets: indices sharing the same omega = basis[1][n]
    let mut omegas: Vec<i64> = Vec::new();
    let mut coset_of = [0usize; 256];
    for n in 0..256 {
        let w = basis[1][n];
        let idx = match omegas.iter().position(|x| *x == w) {
            Some(i) => i,
            None => {
                omegas.push(w);
                omegas.len() - 1
            }
        };
        coset_of[n] = idx;
    }
    assert_eq!(omegas.len(), M, "expected {} cosets", M);
    let mut w = [[0i64; M]; M];
    for c in 0..M {
        for t in 0..M {
            w[c][t] = powmod(omegas[c], t as i64);
        }
    }
    let winv = mat_inv(w);

    let mut best_overall: (f64, usize) = (0.0, 0);
    let mut best_z: Option<[R; L]> = None;
    let rows: Vec<usize> = match args.get(2).and_then(|s| s.parse::<usize>().ok()) {
        Some(k) => vec![k],
        None => (0..K).collect(),
    };
    for &k in &rows {
        let mut z = [R0; L];
        for j in 0..L {
            // per coset: score every v in Z_q, keep the TOP best
            let mut tops: Vec<Vec<(i64, i64)>> = Vec::new(); // (score, v)
            std::thread::scope(|s| {
                let mut hs = Vec::new();
                for cidx in 0..M {
                    let a_row = &cap_a_hat[k][j];
                    let coset_of = &coset_of;
                    hs.push(s.spawn(move || {
                        let idxs: Vec<usize> = (0..256).filter(|n| coset_of[*n] == cidx).collect();
                        let mut best: Vec<(i64, i64)> = Vec::new();
                        let mut thresh = i64::MIN;
                        for v in 0..(Q as i64) {
                            let tm = partial_reduce64(v << 32) as i64;
                            let mut sc = 0i64;
                            for &n in &idxs {
                                sc += mont_reduce(i64::from(a_row.0[n]) * tm) as i64;
                            }
                            if sc > thresh {
                                best.push((sc, v));
                                if best.len() > 4 * TOP {
                                    best.sort_by(|a, b| b.0.cmp(&a.0));
                                    best.truncate(TOP);
                                    thresh = best[TOP - 1].0;
                                }
                            }
                        }
                        best.sort_by(|a, b| b.0.cmp(&a.0));
                        best.truncate(TOP);
                        best
                    }));
                }
                for h in hs {
                    tops.push(h.join().unwrap());
                }
            });
            // combine: need a = Winv * v with |a_t| < gamma1
            let mut best: Option<(i64, [i64; M])> = None;
            let lim = (GAMMA1 - 1) as i64;
            for i0 in 0..tops[0].len() {
                for i1 in 0..tops[1].len() {
                    for i2 in 0..tops[2].len() {
                        for i3 in 0..tops[3].len() {
                            let v = [tops[0][i0].1, tops[1][i1].1, tops[2][i2].1, tops[3][i3].1];
                            let sc = tops[0][i0].0 + tops[1][i1].0 + tops[2][i2].0 + tops[3][i3].0;
                            if let Some((b, _)) = best {
                                if sc <= b {
                                    continue;
                                }
                            }
                            let mut a = [0i64; M];
                            let mut ok = true;
                            for t in 0..M {
                                let mut x = 0i64;
                                for c2 in 0..M {
                                    x = modq(x + winv[t][c2] * v[c2]);
                                }
                                if x > (Q as i64) / 2 {
                                    x -= Q as i64;
                                }
                                if x.abs() > lim {
                                    ok = false;
                                    break;
                                }
                                a[t] = x;
                            }
                            if ok {
                                best = Some((sc, a));
                            }
                        }
                    }
                }
            }
            match best {
                Some((sc, a)) => {
                    eprintln!("row {k} col {j}: modelled gain {:.1} q, a = {:?}", sc as f64 / Q as f64, a);
                    for t in 0..M {
                        z[j].0[64 * t] = a[t] as i32;
                    }
                }
                None => eprintln!("row {k} col {j}: no feasible combination"),
            }
        }
        // exact evaluation with the library's own functions
        let z_hat = ntt::ntt(&z);
        let az_hat = mat_vec_mul(&cap_a_hat, &z_hat);
        // best constant t1 for this row
        let mut best_t1 = (i64::MIN, 0i32, 0i64);
        for a in 0..1024i32 {
            let mut t1 = [R0; K];
            t1[k].0[0] = a;
            let t1_hat_mont: [T; K] = to_mont(&ntt::ntt(&t1));
            let t1_d2: [T; K] = to_mont(&core::array::from_fn(|kk| T(core::array::from_fn(|n| mont_reduce(i64::from(t1_hat_mont[kk].0[n]) << D)))));
            let mut s = 0i64;
            for n in 0..256 {
                s += az_hat[k].0[n] as i64 - mont_reduce(i64::from(c_hat.0[n]) * i64::from(t1_d2[k].0[n])) as i64;
            }
            if s.abs() > best_t1.0 {
                best_t1 = (s.abs(), a, s);
            }
        }
        let ratio = best_t1.0 as f64 / 2147483648.0;
        eprintln!("row {k}: exact |sum| = {} = {:.3} * 2^31 (t1 const {})", best_t1.2, ratio, best_t1.1);
        if ratio > best_overall.0 {
            best_overall = (ratio, k);
            best_z = Some(z.clone());
        }
        if ratio > 1.0 {
            // emit the witness: pk bytes and signature bytes (hex)
            let mut t1 = [R0; K];
            t1[k].0[0] = best_t1.1;
            let pk: [u8; PK_LEN] = encodings::pk_encode::<K, PK_LEN>(&rho, &t1);
            let h = [R0; K];
            let sig: [u8; SIG_LEN] = encodings::sig_encode::<false, K, L, LAMBDA_DIV4, SIG_LEN>(GAMMA1, OMEGA, &c_tilde, &z, &h);
            let hex = |b: &[u8]| b.iter().map(|x| format!("{:02x}", x)).collect::<String>();
            println!("{{\"set\": \"ML-DSA-87\", \"row\": {k}, \"sum\": {}, \"pk\": \"{}\", \"sig\": \"{}\"}}", best_t1.2, hex(&pk), hex(&sig));
            return;
        }
    }
    let _ = best_z;
    eprintln!("no overflowing row found; best {:.3} * 2^31 at row {}", best_overall.0, best_overall.1);
    std::process::exit(3);
}
