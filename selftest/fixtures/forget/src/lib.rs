#![no_std]
//! Fixture: every zero-count rule of the checker must match here on every run.
pub struct S(pub [u8; 4]);

pub fn leak(s: S) {
    core::mem::forget(s)
}

pub fn keep(s: S) -> core::mem::ManuallyDrop<S> {
    core::mem::ManuallyDrop::new(s)
}

pub trait FakeRng {
    fn fill_bytes(&mut self, b: &mut [u8]);
    fn next_u32(&mut self) -> u32;
}

pub fn draw<R: FakeRng>(r: &mut R) -> u32 {
    let mut b = [0u8; 4];
    r.fill_bytes(&mut b);
    r.next_u32()
}
