use fips204::ml_dsa_44;
use fips204::traits::{KeyGen, SerDes, Signer};
use fips204::{CryptoRng, RngCore};

// tiny deterministic generator (xorshift) so that the demo needs no extra crate
struct Xs(u64);
impl RngCore for Xs {
    fn next_u32(&mut self) -> u32 { self.next_u64() as u32 }
    fn next_u64(&mut self) -> u64 { self.0 ^= self.0 << 13; self.0 ^= self.0 >> 7; self.0 ^= self.0 << 17; self.0 }
    fn fill_bytes(&mut self, d: &mut [u8]) { for b in d.iter_mut() { *b = self.next_u64() as u8; } }
    fn try_fill_bytes(&mut self, d: &mut [u8]) -> Result<(), fips204::RngError> { self.fill_bytes(d); Ok(()) }
}
impl CryptoRng for Xs {}

const T0_OFFSET: usize = 128 + 32 * (4 + 4) * 3;

fn main() {
    let (_pk, sk) = ml_dsa_44::KG::keygen_from_seed(&[0x5au8; 32]);
    let mut b = sk.into_bytes();
    let mut r = Xs(0x2040_2040_1234_5678);
    for x in b[T0_OFFSET..].iter_mut() { *x = 0; }
    for c in 0..1024usize {
        if r.next_u64() & 1 == 1 {
            for bit in (c * 13)..((c + 1) * 13) { b[T0_OFFSET + bit / 8] |= 1 << (bit % 8); }
        }
    }
    let sk = ml_dsa_44::PrivateKey::try_from_bytes(b).expect("every field is in range: accepted");
    println!("crafted private key accepted by try_from_bytes");
    let n: usize = std::env::args().nth(1).and_then(|s| s.parse().ok()).unwrap_or(400);
    for i in 0..n {
        let msg = format!("probe {}", i);
        let sk2 = sk.clone();
        let t = std::time::Instant::now();
        let res = std::panic::catch_unwind(move || { let mut g = Xs(1 + i as u64); sk2.try_sign_with_rng(&mut g, msg.as_bytes(), b"ctx").map(|s| s.len()) });
        match res {
            Ok(_) => {}
            Err(_) => { println!("PANIC while signing message 'probe {}' (ctx 'ctx') after {:?}", i, t.elapsed()); std::process::exit(3); }
        }
    }
    println!("no panic in {} messages", n);
}
