use fips204::ml_dsa_87;
use fips204::traits::{SerDes, Verifier};

fn unhex(s: &str) -> Vec<u8> {
    (0..s.len() / 2).map(|i| u8::from_str_radix(&s[2 * i..2 * i + 2], 16).unwrap()).collect()
}

fn field<'a>(json: &'a str, key: &str) -> &'a str {
    let k = format!("\"{}\": \"", key);
    let i = json.find(&k).unwrap() + k.len();
    let j = json[i..].find('"').unwrap();
    &json[i..i + j]
}

#[test]
fn verify_on_constructed_signature_does_not_panic() {
    let json = include_str!("../../d2_witness/witness_87.json");
    let pk: [u8; ml_dsa_87::PK_LEN] = unhex(field(json, "pk")).try_into().unwrap();
    let sig: [u8; ml_dsa_87::SIG_LEN] = unhex(field(json, "sig")).try_into().unwrap();
    let pk = ml_dsa_87::PublicKey::try_from_bytes(pk).unwrap();
    // must return a boolean (false: the commitment hash cannot match), never panic
    let r = std::panic::catch_unwind(|| pk.verify(b"any message", &sig, &[]));
    assert!(r.is_ok(), "verify panicked on a well-formed (public key, signature) byte string");
}
