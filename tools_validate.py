#!/opt/veriftools/pyvenv/bin/python
import json, sys, glob, jsonschema
man = json.load(open('/verif/MANIFEST.json'))
jsonschema.validate(man, json.load(open('/root/.vp/MANIFEST.schema.json')))
es = json.load(open('/root/.vp/EVIDENCE.schema.json'))
for c in man['checks']:
    p = '/verif/' + c['evidence_file']
    try:
        ev = json.load(open(p))
        jsonschema.validate(ev, es)
        assert ev['level'] == c['level_claimed']['category'], (p, ev['level'], c['level_claimed']['category'])
        print('ok', p, ev['level'], ev.get('violations'))
    except Exception as e:
        print('BAD', p, str(e)[:300])
print('manifest valid; claimed', [c['property_id'] for c in man['checks']])
