// Minimal JSON value + writer (no external crates are available to the driver).
use std::collections::BTreeMap;
use std::fmt::Write;

#[derive(Clone, Debug)]
pub enum J {
    Null,
    Bool(bool),
    Int(i128),
    Str(String),
    Arr(Vec<J>),
    Obj(BTreeMap<String, J>),
}

impl J {
    pub fn obj() -> J {
        J::Obj(BTreeMap::new())
    }
    pub fn set(&mut self, k: &str, v: J) -> &mut J {
        if let J::Obj(m) = self {
            m.insert(k.to_string(), v);
        }
        self
    }
    pub fn s(x: impl Into<String>) -> J {
        J::Str(x.into())
    }
    pub fn i(x: impl TryInto<i128>) -> J {
        J::Int(x.try_into().ok().expect("int"))
    }
    pub fn arr_s<I: IntoIterator<Item = String>>(it: I) -> J {
        J::Arr(it.into_iter().map(J::Str).collect())
    }
    pub fn write(&self, out: &mut String) {
        match self {
            J::Null => out.push_str("null"),
            J::Bool(b) => out.push_str(if *b { "true" } else { "false" }),
            J::Int(i) => {
                let _ = write!(out, "{i}");
            }
            J::Str(s) => esc(s, out),
            J::Arr(v) => {
                out.push('[');
                for (i, x) in v.iter().enumerate() {
                    if i > 0 {
                        out.push(',');
                    }
                    x.write(out);
                }
                out.push(']');
            }
            J::Obj(m) => {
                out.push('{');
                for (i, (k, x)) in m.iter().enumerate() {
                    if i > 0 {
                        out.push(',');
                    }
                    esc(k, out);
                    out.push(':');
                    x.write(out);
                }
                out.push('}');
            }
        }
    }
    pub fn to_string(&self) -> String {
        let mut s = String::new();
        self.write(&mut s);
        s
    }
}

fn esc(s: &str, out: &mut String) {
    out.push('"');
    for c in s.chars() {
        match c {
            '"' => out.push_str("\\\""),
            '\\' => out.push_str("\\\\"),
            '\n' => out.push_str("\\n"),
            '\t' => out.push_str("\\t"),
            '\r' => out.push_str("\\r"),
            c if (c as u32) < 0x20 => {
                let _ = write!(out, "\\u{:04x}", c as u32);
            }
            c => out.push(c),
        }
    }
    out.push('"');
}

#[macro_export]
macro_rules! jobj {
    ($($k:expr => $v:expr),* $(,)?) => {{
        let mut m = std::collections::BTreeMap::new();
        $( m.insert($k.to_string(), $v); )*
        $crate::json::J::Obj(m)
    }};
}
