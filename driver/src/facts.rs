// Structural facts: reachable monomorphic instances, resolved call graph, MIR fingerprints,
// terminator inventory. Used by C12 (call-graph rules), C16 (type facts), C17 (fingerprints).
use crate::json::J;
use crate::jobj;
use rustc_hir::def::DefKind;
use rustc_hir::def_id::DefId;
use rustc_middle::mir::{self, TerminatorKind};
use rustc_middle::ty::{self, EarlyBinder, Instance, TyCtxt, TypingEnv};
use rustc_span::def_id::LOCAL_CRATE;
use std::collections::{BTreeMap, BTreeSet, VecDeque};

pub fn span_str<'tcx>(tcx: TyCtxt<'tcx>, sp: rustc_span::Span) -> String {
    let sm = tcx.sess.source_map();
    let sp = sp.source_callsite();
    let lo = sm.lookup_char_pos(sp.lo());
    let f = match &lo.file.name {
        rustc_span::FileName::Real(r) => match r.local_path() {
            Some(p) => p.display().to_string(),
            None => format!("{:?}", r),
        },
        other => format!("{:?}", other),
    };
    // path relative to the crate root when possible
    let f = match f.find("/src/") {
        Some(i) if !f.contains(".cargo") && !f.contains("rustlib") => f[i + 1..].to_string(),
        _ => f,
    };
    format!("{}:{}", f, lo.line)
}

pub fn inst_name<'tcx>(tcx: TyCtxt<'tcx>, inst: Instance<'tcx>) -> String {
    // def path + explicitly rendered generic arguments (the pretty printer elides evaluated
    // const arguments of impl headers, which would conflate the three parameter sets)
    let did = inst.def_id();
    let mut args: &[ty::GenericArg<'tcx>] = inst.args.as_slice();
    if tcx.is_closure_like(did) {
        args = inst.args.as_closure().parent_args();
    }
    let mut parts = Vec::new();
    for a in args {
        match a.kind() {
            ty::GenericArgKind::Lifetime(_) => {}
            ty::GenericArgKind::Type(t) => parts.push(ty::print::with_no_trimmed_paths!(format!("{:?}", t))),
            ty::GenericArgKind::Const(c) => parts.push(ty::print::with_no_trimmed_paths!(format!("{:?}", c))),
        }
    }
    let mut n = def_name(tcx, did);
    if let ty::InstanceKind::DropGlue(_, Some(t)) = inst.def {
        n = format!("drop_in_place<{:?}>", t);
        parts.clear();
    }
    match inst.def {
        ty::InstanceKind::Item(_) | ty::InstanceKind::DropGlue(..) => {}
        ref other => n = format!("{}[{}]", n, format!("{:?}", other).split('(').next().unwrap_or("")),
    }
    if parts.is_empty() { n } else { format!("{}::<{}>", n, parts.join(", ")) }
}

pub fn def_name<'tcx>(tcx: TyCtxt<'tcx>, did: DefId) -> String {
    ty::print::with_no_trimmed_paths!(tcx.def_path_str(did))
}

/// All non-generic free functions / associated functions of the local crate (candidate roots).
pub fn mono_roots<'tcx>(tcx: TyCtxt<'tcx>) -> Vec<(Instance<'tcx>, TypingEnv<'tcx>)> {
    let mut v: Vec<(Instance<'tcx>, TypingEnv<'tcx>)> = Vec::new();
    let fm = TypingEnv::fully_monomorphized();
    for ldid in tcx.mir_keys(()) {
        let did = ldid.to_def_id();
        match tcx.def_kind(did) {
            DefKind::Fn | DefKind::AssocFn => {}
            _ => continue,
        }
        if !tcx.is_mir_available(did) {
            continue;
        }
        let g = tcx.generics_of(did);
        if g.requires_monomorphization(tcx) {
            // functions generic only over type parameters (`rng: &mut impl CryptoRngCore`) are
            // analysed generically under their own typing environment
            let mut only_types = true;
            let mut gg = Some(g);
            while let Some(cur) = gg {
                if cur.own_params.iter().any(|p| matches!(p.kind, ty::GenericParamDefKind::Const { .. })) {
                    only_types = false;
                }
                gg = cur.parent.map(|p| tcx.generics_of(p));
            }
            if !only_types || tcx.def_kind(did) == DefKind::AssocFn && tcx.trait_of_assoc(did).is_some() {
                continue;
            }
            let args = ty::GenericArgs::identity_for_item(tcx, did);
            v.push((Instance::new_raw(did, args), TypingEnv::post_analysis(tcx, did)));
            continue;
        }
        v.push((Instance::mono(tcx, did), fm));
    }
    // provided (default) methods of local traits, instantiated at every non-generic local impl
    for ldid in tcx.hir_crate_items(()).definitions() {
        let tdid = ldid.to_def_id();
        if tcx.def_kind(tdid) != DefKind::Trait {
            continue;
        }
        for &impl_did in tcx.all_local_trait_impls(()).get(&tdid).map(|v| v.as_slice()).unwrap_or(&[]) {
            let impl_did = impl_did.to_def_id();
            if tcx.generics_of(impl_did).requires_monomorphization(tcx) {
                continue;
            }
            let self_ty = tcx.type_of(impl_did).instantiate_identity();
            let self_ty = tcx.normalize_erasing_regions(TypingEnv::fully_monomorphized(), self_ty);
            let self_ty = eval_consts(tcx, self_ty);
            for item in tcx.associated_items(tdid).in_definition_order() {
                if !matches!(item.kind, ty::AssocKind::Fn { .. }) || !item.defaultness(tcx).has_value() {
                    continue;
                }
                let g = tcx.generics_of(item.def_id);
                if g.own_params.iter().any(|p| !matches!(p.kind, ty::GenericParamDefKind::Lifetime)) {
                    continue;
                }
                let args = ty::GenericArgs::for_item(tcx, item.def_id, |p, _| {
                    if p.index == 0 { self_ty.into() } else { tcx.lifetimes.re_erased.into() }
                });
                if let Ok(Some(i)) = Instance::try_resolve(tcx, TypingEnv::fully_monomorphized(), item.def_id, args) {
                    if i.def_id().krate == LOCAL_CRATE {
                        if let ty::InstanceKind::Item(d) = i.def {
                            v.push((Instance::new_raw(d, eval_consts(tcx, i.args)), fm));
                        }
                    }
                }
            }
        }
    }
    v.sort_by_key(|i| inst_name(tcx, i.0));
    v.dedup_by_key(|i| inst_name(tcx, i.0));
    v
}

pub fn mono_body<'tcx>(tcx: TyCtxt<'tcx>, inst: Instance<'tcx>, env: TypingEnv<'tcx>) -> Option<mir::Body<'tcx>> {
    match inst.def {
        ty::InstanceKind::Item(did) => {
            if !tcx.is_mir_available(did) {
                return None;
            }
        }
        ty::InstanceKind::Intrinsic(_) | ty::InstanceKind::Virtual(..) => return None,
        _ => {}
    }
    let body = tcx.instance_mir(inst.def);
    Some(inst.instantiate_mir_and_normalize_erasing_regions(tcx, env, EarlyBinder::bind(body.clone())))
}

pub fn resolve_callee<'tcx>(
    tcx: TyCtxt<'tcx>,
    env: TypingEnv<'tcx>,
    body: &mir::Body<'tcx>,
    func: &mir::Operand<'tcx>,
) -> Option<(DefId, ty::GenericArgsRef<'tcx>, Option<Instance<'tcx>>)> {
    let fty = func.ty(body, tcx);
    match fty.kind() {
        ty::FnDef(def, args) => {
            let r = Instance::try_resolve(tcx, env, *def, args);
            let inst = match r {
                Ok(Some(i)) => Some(i),
                _ => None,
            };
            Some((*def, args, inst))
        }
        _ => None,
    }
}

pub fn fingerprint_body<'tcx>(tcx: TyCtxt<'tcx>, env: TypingEnv<'tcx>, body: &mir::Body<'tcx>) -> String {
    // span-free rendering of the body: local types, statements, terminators
    let mut s = String::new();
    use std::fmt::Write;
    for (l, d) in body.local_decls.iter_enumerated() {
        let _ = writeln!(s, "{:?}:{:?}", l, d.ty);
    }
    for (bb, data) in body.basic_blocks.iter_enumerated() {
        let _ = writeln!(s, "{:?}:", bb);
        for st in &data.statements {
            match &st.kind {
                mir::StatementKind::StorageLive(_)
                | mir::StatementKind::StorageDead(_)
                | mir::StatementKind::Nop
                | mir::StatementKind::FakeRead(..)
                | mir::StatementKind::AscribeUserType(..)
                | mir::StatementKind::Coverage(..)
                | mir::StatementKind::PlaceMention(..) => {}
                k => {
                    let _ = writeln!(s, "  {:?}", k);
                }
            }
        }
        if let Some(t) = &data.terminator {
            let _ = writeln!(s, "  -> {:?}", t.kind);
        }
    }
    // evaluated values of every constant the body mentions (a `const X: bool = cfg!(..)` has the
    // same path in every configuration but not the same value)
    {
        use rustc_middle::mir::visit::Visitor;
        struct CV<'a, 'tcx> {
            tcx: TyCtxt<'tcx>,
            env: TypingEnv<'tcx>,
            out: &'a mut String,
        }
        impl<'a, 'tcx> Visitor<'tcx> for CV<'a, 'tcx> {
            fn visit_const_operand(&mut self, c: &mir::ConstOperand<'tcx>, _loc: mir::Location) {
                use std::fmt::Write;
                match c.const_.eval(self.tcx, self.env, c.span) {
                    Ok(mir::ConstValue::Scalar(mir::interpret::Scalar::Int(i))) => {
                        let _ = writeln!(self.out, "cv {:?}", i);
                    }
                    Ok(mir::ConstValue::Scalar(mir::interpret::Scalar::Ptr(p, _))) => {
                        let (prov, off) = p.into_raw_parts();
                        let h = alloc_hash(self.tcx, prov.alloc_id());
                        let _ = writeln!(self.out, "cv ptr+{} {:016x}", off.bytes(), h);
                    }
                    Ok(mir::ConstValue::Indirect { alloc_id, offset }) => {
                        let h = alloc_hash(self.tcx, alloc_id);
                        let _ = writeln!(self.out, "cv ind+{} {:016x}", offset.bytes(), h);
                    }
                    Ok(mir::ConstValue::ZeroSized) => {}
                    Ok(mir::ConstValue::Slice { alloc_id, meta }) => {
                        let h = alloc_hash(self.tcx, alloc_id);
                        let _ = writeln!(self.out, "cv slice {} {:016x}", meta, h);
                    }
                    Err(_) => {
                        let _ = writeln!(self.out, "cv <unevaluated>");
                    }
                }
            }
        }
        let mut cv = CV { tcx, env, out: &mut s };
        cv.visit_body(body);
    }
    let s = normalize_ids(&s);
    if std::env::var("VERIF_FP_DUMP").is_ok() {
        return s;
    }
    // FNV-1a 64 over the text, twice with different offsets => 128 bits
    let h1 = fnv(s.as_bytes(), 0xcbf29ce484222325);
    let h2 = fnv(s.as_bytes(), 0x84222325cbf29ce4);
    format!("{:016x}{:016x}", h1, h2)
}

fn alloc_hash<'tcx>(tcx: TyCtxt<'tcx>, id: mir::interpret::AllocId) -> u64 {
    let alloc = match tcx.global_alloc(id) {
        mir::interpret::GlobalAlloc::Memory(a) => a,
        mir::interpret::GlobalAlloc::Static(did) => match tcx.eval_static_initializer(did) {
            Ok(a) => a,
            Err(_) => return 0,
        },
        _ => return 1,
    };
    let a = alloc.inner();
    let bytes = a.inspect_with_uninit_and_ptr_outside_interpreter(0..a.len());
    let mut h = fnv(bytes, 0xcbf29ce484222325);
    // nested pointers: mix in the hashes of their targets (depth-limited by recursion on small consts)
    for (_, p) in a.provenance().ptrs().iter() {
        h = h.wrapping_mul(0x100000001b3) ^ alloc_hash(tcx, p.alloc_id());
    }
    h
}

fn fnv(b: &[u8], seed: u64) -> u64 {
    let mut h = seed;
    for x in b {
        h ^= *x as u64;
        h = h.wrapping_mul(0x100000001b3);
    }
    h
}

pub struct Graph<'tcx> {
    pub order: Vec<Instance<'tcx>>,
    pub bodies: BTreeMap<String, mir::Body<'tcx>>,
}

pub fn is_local_inst<'tcx>(inst: Instance<'tcx>) -> bool {
    inst.def_id().krate == LOCAL_CRATE
}

pub fn run<'tcx>(tcx: TyCtxt<'tcx>) -> String {
    let roots = mono_roots(tcx);
    let mut seen: BTreeSet<String> = BTreeSet::new();
    let mut queue: VecDeque<(Instance<'tcx>, TypingEnv<'tcx>)> = VecDeque::new();
    for r in &roots {
        if seen.insert(inst_name(tcx, r.0)) {
            queue.push_back(*r);
        }
    }
    let mut insts = Vec::new();
    let mut n_assert = 0usize;
    let mut n_calls = 0usize;
    while let Some((inst, env)) = queue.pop_front() {
        let name = inst_name(tcx, inst);
        let Some(body) = mono_body(tcx, inst, env) else { continue };
        let mut calls = Vec::new();
        let mut asserts = Vec::new();
        for (bb, data) in body.basic_blocks.iter_enumerated() {
            let Some(term) = &data.terminator else { continue };
            match &term.kind {
                TerminatorKind::Call { func, args, .. } => {
                    n_calls += 1;
                    let site = span_str(tcx, term.source_info.span);
                    let mut c = jobj! {"bb" => J::i(bb.as_usize()), "site" => J::s(site),
                    "from_expansion" => J::Bool(term.source_info.span.from_expansion())};
                    match resolve_callee(tcx, env, &body, func) {
                        Some((def, gargs, ri)) => {
                            c.set("def", J::s(def_name(tcx, def)));
                            c.set(
                                "def_args",
                                J::s(ty::print::with_no_trimmed_paths!(
                                    tcx.def_path_str_with_args(def, gargs)
                                )),
                            );
                            c.set("def_local", J::Bool(def.krate == LOCAL_CRATE));
                            match ri {
                                Some(ri) => {
                                    let rn = inst_name(tcx, ri);
                                    c.set("resolved", J::s(rn.clone()));
                                    c.set("resolved_def", J::s(def_name(tcx, ri.def_id())));
                                    c.set("resolved_local", J::Bool(is_local_inst(ri)));
                                    c.set("kind", J::s(format!("{:?}", std::mem::discriminant(&ri.def)).replace("Discriminant", "")));
                                    if is_local_inst(ri) && seen.insert(rn) {
                                        queue.push_back((ri, env));
                                    }
                                }
                                None => {
                                    c.set("resolved", J::Null);
                                }
                            }
                        }
                        None => {
                            c.set("def", J::Null);
                            c.set("indirect", J::s(format!("{:?}", func.ty(&body, tcx))));
                        }
                    }
                    c.set(
                        "arg_pointee_sizes",
                        J::Arr(args.iter().map(|a| {
                            let t = a.node.ty(&body, tcx);
                            let pt = t.builtin_deref(true).unwrap_or(t);
                            match tcx.layout_of(env.as_query_input(pt)) {
                                Ok(l) if l.is_sized() => J::i(l.size.bytes()),
                                _ => J::Null,
                            }
                        }).collect()),
                    );
                    c.set(
                        "arg_tys",
                        J::arr_s(args.iter().map(|a| format!("{:?}", a.node.ty(&body, tcx)))),
                    );
                    calls.push(c);
                }
                TerminatorKind::Assert { msg, .. } => {
                    n_assert += 1;
                    let kind = format!("{:?}", msg);
                    let kind = kind.split('(').next().unwrap_or("").to_string();
                    asserts.push(jobj! {"bb" => J::i(bb.as_usize()),
                    "site" => J::s(span_str(tcx, term.source_info.span)), "kind" => J::s(kind)});
                }
                _ => {}
            }
        }
        let sig_in: Vec<String> =
            body.args_iter().map(|l| format!("{:?}", body.local_decls[l].ty)).collect();
        let vis = match tcx.def_kind(inst.def_id()) {
            DefKind::Fn | DefKind::AssocFn => format!("{:?}", tcx.visibility(inst.def_id())),
            _ => "n/a".into(),
        };
        insts.push(jobj! {
            "name" => J::s(name),
            "def" => J::s(def_name(tcx, inst.def_id())),
            "local" => J::Bool(is_local_inst(inst)),
            "site" => J::s(span_str(tcx, body.span)),
            "blocks" => J::i(body.basic_blocks.len()),
            "fingerprint" => J::s(fingerprint_body(tcx, env, &body)),
            "args" => J::arr_s(sig_in),
            "ret" => J::s(format!("{:?}", body.return_ty())),
            "vis" => J::s(vis),
            "calls" => J::Arr(calls),
            "asserts" => J::Arr(asserts),
        });
    }
    let out = jobj! {
        "crate" => J::s("fips204"),
        "roots" => J::arr_s(roots.iter().map(|r| inst_name(tcx, r.0))),
        "instances" => J::Arr(insts),
        "n_mir_keys" => J::i(tcx.mir_keys(()).len()),
        "n_assert" => J::i(n_assert),
        "n_calls" => J::i(n_calls),
        "types" => crate::facts::type_facts(tcx),
        "extern_crates" => J::arr_s(tcx.crates(()).iter().map(|c| tcx.crate_name(*c).to_string())),
        "generic_calls" => generic_calls(tcx),
    };
    out.to_string()
}

/// ADT facts for the key / polynomial types (C16).
pub fn type_facts<'tcx>(tcx: TyCtxt<'tcx>) -> J {
    let mut out = Vec::new();
    // every type alias / struct in the crate; aliases are instantiated (ml_dsa_44::PrivateKey = PrivateKey<4,4>)
    let mut tys: Vec<(String, ty::Ty<'tcx>)> = Vec::new();
    for ldid in tcx.hir_crate_items(()).definitions() {
        let did = ldid.to_def_id();
        match tcx.def_kind(did) {
            DefKind::TyAlias => {
                let t = tcx.type_of(did).instantiate_identity();
                let t = tcx.normalize_erasing_regions(TypingEnv::fully_monomorphized(), t);
                tys.push((def_name(tcx, did), t));
            }
            DefKind::Struct => {
                if tcx.generics_of(did).requires_monomorphization(tcx) {
                    continue;
                }
                let t = tcx.type_of(did).instantiate_identity().skip_norm_wip();
                tys.push((def_name(tcx, did), t));
            }
            _ => {}
        }
    }
    let env = TypingEnv::fully_monomorphized();
    for (name, t) in tys {
        let mut o = jobj! {"name" => J::s(name), "ty" => J::s(format!("{:?}", t))};
        if let ty::Adt(adt, args) = t.kind() {
            o.set("adt", J::s(def_name(tcx, adt.did())));
            o.set("repr", J::s(format!("{:?}", adt.repr())));
            o.set("has_dtor", J::Bool(adt.destructor(tcx).is_some()));
            o.set("needs_drop", J::Bool(t.needs_drop(tcx, env)));
            if let Ok(layout) = tcx.layout_of(env.as_query_input(t)) {
                o.set("size", J::i(layout.size.bytes()));
                o.set("align", J::i(layout.align.abi.bytes()));
                let mut fields = Vec::new();
                if adt.is_struct() {
                    for (i, f) in adt.non_enum_variant().fields.iter().enumerate() {
                        let fty = f.ty(tcx, args);
                        let fsz = tcx
                            .layout_of(env.as_query_input(fty))
                            .map(|l| l.size.bytes())
                            .unwrap_or(0);
                        fields.push(jobj! {
                            "name" => J::s(f.name.as_str()),
                            "ty" => J::s(format!("{:?}", fty)),
                            "size" => J::i(fsz),
                            "offset" => J::i(layout.fields.offset(i).bytes()),
                        });
                    }
                }
                o.set("fields", J::Arr(fields));
            }
            // drop glue: which functions does drop_in_place::<T> call, transitively (local + zeroize)
            let glue = Instance::resolve_drop_in_place(tcx, t);
            o.set("drop_glue", drop_closure(tcx, glue));
        }
        out.push(o);
    }
    J::Arr(out)
}

/// Transitive call closure of the drop glue restricted to depth 6; each call with its receiver type.
fn drop_closure<'tcx>(tcx: TyCtxt<'tcx>, glue: Instance<'tcx>) -> J {
    let mut out = Vec::new();
    let mut seen = BTreeSet::new();
    let mut q = VecDeque::new();
    q.push_back((glue, 0usize));
    while let Some((inst, depth)) = q.pop_front() {
        let name = inst_name(tcx, inst);
        if !seen.insert(name.clone()) || depth > 24 {
            continue;
        }
        let Some(body) = mono_body(tcx, inst, TypingEnv::fully_monomorphized()) else {
            out.push(jobj! {"fn" => J::s(name), "body" => J::Bool(false)});
            continue;
        };
        let mut calls = Vec::new();
        for data in body.basic_blocks.iter() {
            let Some(term) = &data.terminator else { continue };
            match &term.kind {
                TerminatorKind::Call { func, args, .. } => {
                    if let Some((def, _ga, ri)) = resolve_callee(tcx, TypingEnv::fully_monomorphized(), &body, func) {
                        let rn = ri.map(|r| inst_name(tcx, r)).unwrap_or_else(|| def_name(tcx, def));
                        // describe the receiver place (which field of self)
                        let recv = args.first().map(|a| format!("{:?}", a.node)).unwrap_or_default();
                        calls.push(jobj! {"callee" => J::s(rn), "recv" => J::s(recv),
                        "recv_ty" => J::s(args.first().map(|a| format!("{:?}", a.node.ty(&body, tcx))).unwrap_or_default())});
                        if let Some(ri) = ri {
                            q.push_back((ri, depth + 1));
                        }
                    }
                }
                TerminatorKind::Drop { place, .. } => {
                    let pty = place.ty(&body, tcx).ty;
                    calls.push(jobj! {"drop_place" => J::s(format!("{:?}", place)), "ty" => J::s(format!("{:?}", pty))});
                    let g = Instance::resolve_drop_in_place(tcx, pty);
                    q.push_back((g, depth + 1));
                }
                _ => {}
            }
        }
        // assignments to fields (statements) are summarised as text for the zeroize bodies
        let mut stmts = Vec::new();
        for data in body.basic_blocks.iter() {
            for st in &data.statements {
                if let mir::StatementKind::Assign(b) = &st.kind {
                    stmts.push(format!("{:?} = {:?}", b.0, b.1));
                }
            }
        }
        out.push(jobj! {"fn" => J::s(name), "body" => J::Bool(true), "calls" => J::Arr(calls),
            "assigns" => J::arr_s(stmts)});
    }
    J::Arr(out)
}


/// Callee definitions named in *every* local MIR body, generic or not (un-instantiated), so that
/// zero-count who-may-call rules see code no monomorphic root reaches.
pub fn generic_calls<'tcx>(tcx: TyCtxt<'tcx>) -> J {
    let mut out = Vec::new();
    for ldid in tcx.mir_keys(()) {
        let did = ldid.to_def_id();
        match tcx.def_kind(did) {
            DefKind::Fn | DefKind::AssocFn | DefKind::Closure => {}
            _ => continue,
        }
        if !tcx.is_mir_available(did) {
            continue;
        }
        let body = tcx.instance_mir(ty::InstanceKind::Item(did));
        for data in body.basic_blocks.iter() {
            let Some(term) = &data.terminator else { continue };
            if let TerminatorKind::Call { func, .. } = &term.kind {
                if let ty::FnDef(def, _) = func.ty(body, tcx).kind() {
                    out.push(jobj! {"in" => J::s(def_name(tcx, did)), "callee" => J::s(def_name(tcx, *def)),
                        "site" => J::s(span_str(tcx, term.source_info.span))});
                }
            }
        }
    }
    J::Arr(out)
}


struct ConstEvalFolder<'tcx> {
    tcx: TyCtxt<'tcx>,
}
impl<'tcx> ty::TypeFolder<TyCtxt<'tcx>> for ConstEvalFolder<'tcx> {
    fn cx(&self) -> TyCtxt<'tcx> {
        self.tcx
    }
    fn fold_const(&mut self, c: ty::Const<'tcx>) -> ty::Const<'tcx> {
        use rustc_middle::ty::TypeSuperFoldable;
        if let ty::ConstKind::Unevaluated(uv) = c.kind() {
            let r = self.tcx.const_eval_resolve_for_typeck(
                TypingEnv::fully_monomorphized(),
                uv,
                rustc_span::DUMMY_SP,
            );
            match r {
                Ok(Ok(vt)) => {
                    let t = self.tcx.type_of(uv.def).instantiate(self.tcx, uv.args).skip_norm_wip();
                    return ty::Const::new_value(self.tcx, vt, t);
                }
                other => eprintln!("verif: const eval failed {:?}", other.map(|x| x.is_ok())),
            }
        }
        c.super_fold_with(self)
    }
}

/// Evaluate unevaluated anonymous constants inside a type (`PrivateKey<{K}, {L}>` -> `PrivateKey<4, 4>`).
pub fn eval_consts<'tcx, T: ty::TypeFoldable<TyCtxt<'tcx>>>(tcx: TyCtxt<'tcx>, t: T) -> T {
    use rustc_middle::ty::TypeFoldable;
    t.fold_with(&mut ConstEvalFolder { tcx })
}


/// Remove session-specific identifiers from rendered MIR: `DefId(0:210 ~ fips204[b064]::x)` ->
/// `DefId(fips204::x)`, `alloc17` -> `alloc`.
pub fn normalize_ids(s: &str) -> String {
    let b = s.as_bytes();
    let mut out = String::with_capacity(s.len());
    let mut i = 0;
    while i < b.len() {
        if b[i..].starts_with(b"DefId(") {
            out.push_str("DefId(");
            i += 6;
            // skip "N:M ~ "
            let mut j = i;
            while j < b.len() && (b[j].is_ascii_digit() || b[j] == b':') {
                j += 1;
            }
            if b[j..].starts_with(b" ~ ") {
                i = j + 3;
            }
            continue;
        }
        if b[i] == b'[' && i + 5 < b.len() && b[i + 5] == b']' && b[i + 1..i + 5].iter().all(|c| c.is_ascii_hexdigit()) {
            i += 6;
            continue;
        }
        if b[i..].starts_with(b"alloc") && i + 5 < b.len() && b[i + 5].is_ascii_digit() {
            out.push_str("alloc");
            i += 5;
            while i < b.len() && b[i].is_ascii_digit() {
                i += 1;
            }
            continue;
        }
        // copy one UTF-8 char
        let ch_len = match b[i] {
            x if x < 0x80 => 1,
            x if x >> 5 == 0b110 => 2,
            x if x >> 4 == 0b1110 => 3,
            _ => 4,
        };
        out.push_str(&s[i..i + ch_len]);
        i += ch_len;
    }
    out
}


/// every local instance reachable from the roots through resolved calls (roots first)
pub fn reachable_instances<'tcx>(tcx: TyCtxt<'tcx>) -> Vec<(Instance<'tcx>, TypingEnv<'tcx>)> {
    let roots = mono_roots(tcx);
    let mut seen: BTreeSet<String> = BTreeSet::new();
    let mut out = Vec::new();
    let mut queue: VecDeque<(Instance<'tcx>, TypingEnv<'tcx>)> = VecDeque::new();
    for r in &roots {
        if seen.insert(inst_name(tcx, r.0)) {
            queue.push_back(*r);
        }
    }
    while let Some((inst, env)) = queue.pop_front() {
        if !tcx.is_closure_like(inst.def_id()) {
            out.push((inst, env));
        }
        let Some(body) = mono_body(tcx, inst, env) else { continue };
        for data in body.basic_blocks.iter() {
            for st in &data.statements {
                if let mir::StatementKind::Assign(b) = &st.kind {
                    if let mir::Rvalue::Aggregate(k, _) = &b.1 {
                        if let mir::AggregateKind::Closure(def, cargs) = &**k {
                            let ci = Instance::resolve_closure(tcx, *def, cargs, cargs.as_closure().kind());
                            if seen.insert(inst_name(tcx, ci) + "#closure") {
                                queue.push_back((ci, env));
                            }
                        }
                    }
                }
            }
            let Some(term) = &data.terminator else { continue };
            if let TerminatorKind::Call { func, .. } = &term.kind {
                if let Some((_, _, Some(ri))) = resolve_callee(tcx, env, &body, func) {
                    if is_local_inst(ri) && !tcx.is_closure_like(ri.def_id()) && seen.insert(inst_name(tcx, ri)) {
                        queue.push_back((ri, env));
                    }
                }
            }
        }
    }
    out
}
