// fips204-verif-driver: a rustc_private driver that analyses the `fips204` crate's type-checked,
// monomorphised MIR. It never runs the library. Modes (env VERIF_MODE):
//   facts  - structural facts (instances, call graph, types/layout/drop glue, fingerprints)
//   ai     - abstract interpretation jobs read from VERIF_JOBS, results to VERIF_OUT
#![feature(rustc_private)]
#![allow(clippy::all)]

extern crate rustc_abi;
extern crate rustc_ast;
extern crate rustc_const_eval;
extern crate rustc_data_structures;
extern crate rustc_driver;
extern crate rustc_hir;
extern crate rustc_index;
extern crate rustc_interface;
extern crate rustc_middle;
extern crate rustc_session;
extern crate rustc_span;
extern crate rustc_target;

mod ai;
mod facts;
mod json;

use rustc_driver::Compilation;
use rustc_interface::interface::Compiler;
use rustc_middle::ty::TyCtxt;
use rustc_span::def_id::LOCAL_CRATE;

struct Cb;

impl rustc_driver::Callbacks for Cb {
    fn after_analysis<'tcx>(&mut self, _c: &Compiler, tcx: TyCtxt<'tcx>) -> Compilation {
        let name = tcx.crate_name(LOCAL_CRATE);
        if name.as_str() != "fips204" {
            return Compilation::Continue;
        }
        // only the library target (not build scripts / tests)
        let mode = std::env::var("VERIF_MODE").unwrap_or_else(|_| "facts".into());
        let out = std::env::var("VERIF_OUT").expect("VERIF_OUT not set");
        let text = match mode.as_str() {
            "facts" => facts::run(tcx),
            "ai" => ai::jobs::run(tcx),
            other => panic!("unknown VERIF_MODE {other}"),
        };
        std::fs::write(&out, text).expect("cannot write VERIF_OUT");
        Compilation::Continue
    }
}

fn main() {
    let mut args: Vec<String> = std::env::args().collect();
    // RUSTC_WORKSPACE_WRAPPER passes the real rustc path as argv[1]
    if args.len() > 1 && (args[1].ends_with("rustc") || args[1].contains("/rustc")) {
        args.remove(1);
    }
    // deep recursion in the abstract interpreter: run on a thread with a large stack
    let h = std::thread::Builder::new().stack_size(2 << 30).spawn(move || {
        rustc_driver::run_compiler(&args, &mut Cb);
    }).unwrap();
    if h.join().is_err() {
        std::process::exit(101);
    }
}
