// Models of std / dependency callees (the crate's own functions are interpreted, never modelled).
use super::exec::*;
use super::interp::*;
use super::ops::{self, Arith, Cmp};
use super::state::*;
use super::val::*;
use rustc_hir::def_id::DefId;
use rustc_middle::ty::{self, Instance, Ty};
use std::collections::BTreeMap;
use std::rc::Rc;

pub type Parts = Vec<(Option<State>, Val)>;

fn one(v: Val) -> Option<Parts> {
    Some(vec![(None, v)])
}

pub fn res_ok(v: Val) -> Val {
    let mut m = BTreeMap::new();
    m.insert(0u32, vec![v]);
    Val::Enum(Rc::new(EnumV { variants: m }))
}
pub fn res_err(v: Val) -> Val {
    let mut m = BTreeMap::new();
    m.insert(1u32, vec![v]);
    Val::Enum(Rc::new(EnumV { variants: m }))
}
pub fn opt_some(v: Val) -> Val {
    let mut m = BTreeMap::new();
    m.insert(1u32, vec![v]);
    Val::Enum(Rc::new(EnumV { variants: m }))
}
pub fn opt_none() -> Val {
    let mut m = BTreeMap::new();
    m.insert(0u32, vec![]);
    Val::Enum(Rc::new(EnumV { variants: m }))
}

pub enum Next {
    Item(Val, bool), // value, maybe (true = may or may not be yielded)
    Done,
    Unknown,
}

impl<'tcx> Interp<'tcx> {
    fn int_arg(&self, st: &State, v: &Val) -> Option<IntV> {
        match v {
            Val::Int(i) => self.atoms(st).concretize(i),
            _ => None,
        }
    }

    /// value behind a reference argument
    pub fn deref_val(&self, st: &State, v: &Val) -> Val {
        match v {
            Val::Ref(p) => {
                let x = self.read_ptr(st, p);
                self.conc(st, x)
            }
            other => other.clone(),
        }
    }

    pub fn slice_elems(&self, st: &State, v: &Val) -> Option<(Ptr, IntV, IntV)> {
        match v {
            Val::Slice { base, start, len } => Some((base.clone(), start.clone(), len.clone())),
            Val::Ref(p) => match self.read_ptr(st, p) {
                Val::Arr(a) => Some((p.clone(), IntV::konst(0, ITy::USIZE), IntV::konst(a.len as i128, ITy::USIZE))),
                Val::Slice { base, start, len } => Some((base, start, len)),
                _ => None,
            },
            _ => None,
        }
    }

    pub fn temp_slot(&mut self, st: &mut State, v: Val) -> Ptr {
        let fi = self.fi();
        let f = &mut st.frames[fi as usize];
        f.locals.push(v);
        f.vers.push(0);
        Ptr::local(fi, (f.locals.len() - 1) as u32)
    }
    pub fn free_temp(&mut self, st: &mut State, p: &Ptr) {
        let f = &mut st.frames[p.frame as usize];
        if p.local as usize == f.locals.len() - 1 {
            f.locals.pop();
            f.vers.pop();
        } else if (p.local as usize) < f.locals.len() {
            f.locals[p.local as usize] = Val::Bot;
        }
    }

    pub fn closure_ty_ix(&mut self, t: Ty<'tcx>) -> usize {
        if let Some(i) = self.closure_tys.iter().position(|x| *x == t) {
            return i;
        }
        self.closure_tys.push(t);
        self.closure_tys.len() - 1
    }

    /// call a closure value with untupled arguments; returns partitions
    pub fn call_closure(&mut self, st: State, f: &Val, fty: Ty<'tcx>, args: Vec<Val>) -> Vec<(State, Val)> {
        let fty = match fty.kind() {
            ty::Ref(_, inner, _) => *inner,
            _ => fty,
        };
        match fty.kind() {
            ty::Closure(def, cargs) => {
                let kind = cargs.as_closure().kind();
                let inst = Instance::resolve_closure(self.tcx, *def, cargs, kind);
                let Some(bi) = self.body_of(inst) else {
                    self.unsupported("closure-body");
                    return vec![(st, Val::Top)];
                };
                let mut s = st;
                let envty = bi.body.local_decls[rustc_middle::mir::Local::from_u32(1)].ty;
                let fval = match f {
                    Val::Ref(p) => self.read_ptr(&s, p),
                    other => other.clone(),
                };
                let mut tmp = None;
                let env = if envty.is_ref() {
                    match f {
                        Val::Ref(p) => Val::Ref(p.clone()),
                        _ => {
                            let p = self.temp_slot(&mut s, fval.clone());
                            tmp = Some(p.clone());
                            Val::Ref(p)
                        }
                    }
                } else {
                    fval
                };
                let mut av = vec![env];
                av.extend(args);
                let r = self.call_instance(s, inst, av);
                match r {
                    Ok(mut parts) => {
                        if let Some(p) = tmp {
                            for (s, _) in parts.iter_mut() {
                                self.free_temp(s, &p);
                            }
                        }
                        parts
                    }
                    Err(s) => vec![(s, Val::Top)],
                }
            }
            ty::FnDef(def, fargs) => {
                let inst = Instance::try_resolve(self.tcx, self.env, *def, fargs).ok().flatten();
                match inst {
                    Some(i) => match self.call_instance(st, i, args) {
                        Ok(p) => p,
                        Err(s) => vec![(s, Val::Top)],
                    },
                    None => vec![(st, Val::Top)],
                }
            }
            _ => {
                self.unsupported("call-closure-type");
                vec![(st, Val::Top)]
            }
        }
    }

    fn join_parts(&self, parts: Vec<(State, Val)>) -> Option<(State, Val)> {
        let mut it = parts.into_iter();
        let (mut s, mut v) = it.next()?;
        for (s2, v2) in it {
            s = s.join(&s2);
            v = v.join(&v2);
        }
        Some((s, v))
    }

    // ---- iterators ------------------------------------------------------------------------

    pub fn iter_next(&mut self, st: &mut State, it: &mut IterV) -> Next {
        match it {
            IterV::Slice { base, pos, .. } => {
                let Some((b, start, len)) = self.slice_elems(st, base) else { return Next::Unknown };
                let (Some(s0), Some(n)) = (start.is_const(), len.is_const()) else { return Next::Unknown };
                if (*pos as i128) < n {
                    let p = b.push(PElem::Index(s0 + *pos as i128));
                    *pos += 1;
                    Next::Item(Val::Ref(p), false)
                } else {
                    Next::Done
                }
            }
            IterV::ArrayInto { arr, pos } => match arr {
                Val::Arr(a) => {
                    if *pos < a.len {
                        let v = a.get(*pos).clone();
                        *pos += 1;
                        Next::Item(v, false)
                    } else {
                        Next::Done
                    }
                }
                _ => Next::Unknown,
            },
            IterV::ChunksMut { base, chunk, pos } => {
                let Some((b, start, len)) = self.slice_elems(st, base) else { return Next::Unknown };
                let (Some(s0), Some(n)) = (start.is_const(), len.is_const()) else { return Next::Unknown };
                let off = (*pos * *chunk) as i128;
                if off < n {
                    let l = (*chunk as i128).min(n - off);
                    *pos += 1;
                    if self.stack.iter().any(|b| b.name.starts_with("encodings::")) {
                        let mut d = BTreeMap::new();
                        d.insert("base".to_string(), self.describe_ptr(&b));
                        d.insert("base_start".to_string(), "0".to_string());
                        d.insert("lo".to_string(), (s0 + off).to_string());
                        d.insert("hi".to_string(), (s0 + off + l).to_string());
                        d.insert("of_len".to_string(), "chunk".to_string());
                        d.insert("mutable".to_string(), "true".to_string());
                        d.insert("path".to_string(), self.call_path());
                        let inst = self.stack.iter().rev().find(|b| b.name.starts_with("encodings::")).map(|b| b.name.clone()).unwrap_or_default();
                        self.probes.push(Probe { what: "range".into(), inst, ctx: String::new(), data: d });
                    }
                    Next::Item(Val::Slice { base: b, start: IntV::konst(s0 + off, ITy::USIZE), len: IntV::konst(l, ITy::USIZE) }, false)
                } else {
                    Next::Done
                }
            }
            IterV::Enumerate { inner, count } => match self.iter_next(st, inner) {
                Next::Item(v, m) => {
                    let c = *count;
                    *count += 1;
                    Next::Item(Val::Tuple(Rc::new(vec![Val::konst(c as i128, ITy::USIZE), v])), m)
                }
                o => o,
            },
            IterV::Zip { a, b } => match self.iter_next(st, a) {
                Next::Item(va, ma) => match self.iter_next(st, b) {
                    Next::Item(vb, mb) => Next::Item(Val::Tuple(Rc::new(vec![va, vb])), ma || mb),
                    o => o,
                },
                o => o,
            },
            IterV::Take { inner, n } => {
                if *n == 0 {
                    return Next::Done;
                }
                *n -= 1;
                self.iter_next(st, inner)
            }
            IterV::Map { inner, f, fty } => match self.iter_next(st, inner) {
                Next::Item(v, m) => {
                    let t = self.closure_tys[*fty];
                    let f = f.clone();
                    let parts = self.call_closure(std::mem::replace(st, State::empty()), &f, t, vec![v]);
                    match self.join_parts(parts) {
                        Some((s, r)) => {
                            *st = s;
                            Next::Item(r, m)
                        }
                        None => Next::Unknown,
                    }
                }
                o => o,
            },
            IterV::Filter { inner, f, fty } => loop {
                match self.iter_next(st, inner) {
                    Next::Item(v, m) => {
                        let t = self.closure_tys[*fty];
                        let f = f.clone();
                        // the predicate receives a reference to the item
                        let p = self.temp_slot(st, v.clone());
                        let parts = self.call_closure(std::mem::replace(st, State::empty()), &f, t, vec![Val::Ref(p.clone())]);
                        let Some((mut s, r)) = self.join_parts(parts) else { return Next::Unknown };
                        self.free_temp(&mut s, &p);
                        *st = s;
                        if self.taint_track && r.taint_of() != 0 && r.as_int().and_then(|i| i.is_const()).is_none() {
                            self.leak("iterator-filter", "filter predicate over tainted data");
                        }
                        match r.as_int().and_then(|i| i.is_const()) {
                            Some(0) => continue,
                            Some(_) => return Next::Item(v, m),
                            None => return Next::Item(v, true),
                        }
                    }
                    o => return o,
                }
            },
            IterV::FlatMap { inner, f, fty, cur } => loop {
                if let Some(c) = cur {
                    match self.iter_next(st, c) {
                        Next::Item(v, m) => return Next::Item(v, m),
                        Next::Done => {
                            *cur = None;
                        }
                        Next::Unknown => return Next::Unknown,
                    }
                }
                match self.iter_next(st, inner) {
                    Next::Item(v, false) => {
                        let t = self.closure_tys[*fty];
                        let f = f.clone();
                        let parts = self.call_closure(std::mem::replace(st, State::empty()), &f, t, vec![v]);
                        let Some((s, r)) = self.join_parts(parts) else { return Next::Unknown };
                        *st = s;
                        match r {
                            Val::Arr(_) => *cur = Some(Box::new(IterV::ArrayInto { arr: r, pos: 0 })),
                            Val::Opq(Opaque::Iter(i)) => *cur = Some(i),
                            _ => return Next::Unknown,
                        }
                    }
                    Next::Item(_, true) => return Next::Unknown,
                    o => return o,
                }
            },
        }
    }

    fn iter_of(&mut self, st: &State, v: &Val) -> Option<IterV> {
        match v {
            Val::Opq(Opaque::Iter(i)) => Some((**i).clone()),
            Val::Arr(_) => Some(IterV::ArrayInto { arr: v.clone(), pos: 0 }),
            Val::Slice { .. } => Some(IterV::Slice { base: v.clone(), pos: 0, mutable: false }),
            Val::Ref(p) => match self.read_ptr(st, p) {
                Val::Arr(a) => Some(IterV::Slice { base: Val::Slice { base: p.clone(), start: IntV::konst(0, ITy::USIZE), len: IntV::konst(a.len as i128, ITy::USIZE) }, pos: 0, mutable: false }),
                Val::Opq(Opaque::Iter(i)) => Some((*i).clone()),
                _ => None,
            },
            _ => None,
        }
    }

    // ---- the dispatcher ---------------------------------------------------------------------

    pub fn model_call(
        &mut self, st: &mut State, name: &str, _def: DefId, gargs: ty::GenericArgsRef<'tcx>, _inst: Option<Instance<'tcx>>,
        a: &[Val], tys: &[Ty<'tcx>], ret: Ty<'tcx>,
    ) -> Option<Parts> {
        // dependency re-exports print as `sha2::digest::...` / `sha3::digest::...`
        let owned;
        let n = match name.find("digest::") {
            Some(i) if i > 0 => {
                owned = name[i..].to_string();
                owned.as_str()
            }
            _ => {
                if let Some(rest) = name.strip_prefix("sha2::Digest::").or_else(|| name.strip_prefix("sha3::Digest::")) {
                    owned = format!("digest::Digest::{}", rest);
                    owned.as_str()
                } else {
                    name
                }
            }
        };
        // ----- formatting machinery on panic paths: opaque
        if n.starts_with("core::fmt::") || n.starts_with("core::panic::") {
            return one(Val::Top);
        }
        // ----- integer helpers
        if n.starts_with("core::num::<impl ") {
            let m = n.rsplit("::").next().unwrap();
            let x = self.int_arg(st, a.get(0)?);
            let at = self.atoms(st);
            match (m, x) {
                ("abs", Some(x)) => {
                    self.model_obligation("abs-of-min", x.lo > x.ty.min(), format!("abs({})", x.short()));
                    let lo = if x.lo <= 0 && x.hi >= 0 { 0 } else { x.lo.abs().min(x.hi.abs()) };
                    let hi = x.lo.abs().max(x.hi.abs()).min(x.ty.max());
                    return one(Val::Int(IntV::new(lo, hi, x.ty).with_taint(x.taint)));
                }
                ("unsigned_abs", Some(x)) if x.lo >= 0 && x.lin.is_some() => {
                    let mut r = x.clone();
                    r.ty = ity_of(ret)?;
                    r.canon = None;
                    return one(Val::Int(r));
                }
                ("abs_diff", Some(x)) if x.lin.is_some() || self.int_arg(st, a.get(1)?).map(|y| y.lin.is_some()).unwrap_or(false) => {
                    let y = self.int_arg(st, a.get(1)?)?;
                    let it = ity_of(ret)?;
                    // decided order: the absolute difference is the plain difference (keeps exact forms)
                    let d = if x.lo >= y.hi { Some(ops::arith(Arith::Sub, &x, &y, ITy::I128, false, &at).0) } else if y.lo >= x.hi { Some(ops::arith(Arith::Sub, &y, &x, ITy::I128, false, &at).0) } else { None };
                    if let Some(mut d) = d {
                        if d.lo >= it.min() && d.hi <= it.max() {
                            d.ty = it;
                            return one(Val::Int(d));
                        }
                    }
                    let d1 = x.lo - y.hi;
                    let d2 = x.hi - y.lo;
                    let lo = if d1 <= 0 && d2 >= 0 { 0 } else { d1.abs().min(d2.abs()) };
                    let hi = d1.abs().max(d2.abs());
                    return one(Val::Int(IntV::new(lo, hi, it).with_taint(x.taint | y.taint)));
                }
                ("unsigned_abs", Some(x)) => {
                    let lo = if x.lo <= 0 && x.hi >= 0 { 0 } else { x.lo.abs().min(x.hi.abs()) };
                    let hi = x.lo.unsigned_abs().max(x.hi.unsigned_abs()) as i128;
                    let it = ity_of(ret)?;
                    return one(Val::Int(IntV::new(lo, hi, it).with_taint(x.taint)));
                }
                ("abs_diff", Some(x)) => {
                    let y = self.int_arg(st, a.get(1)?)?;
                    let it = ity_of(ret)?;
                    let d1 = x.lo - y.hi;
                    let d2 = x.hi - y.lo;
                    let lo = if d1 <= 0 && d2 >= 0 { 0 } else { d1.abs().min(d2.abs()) };
                    let hi = d1.abs().max(d2.abs());
                    return one(Val::Int(IntV::new(lo, hi, it).with_taint(x.taint | y.taint)));
                }
                ("ilog2", Some(x)) => {
                    self.model_obligation("ilog2-nonpositive", x.lo > 0, format!("ilog2({})", x.short()));
                    let lo = if x.lo > 0 { 127 - (x.lo.leading_zeros() as i128) } else { 0 };
                    let hi = if x.hi > 0 { 127 - (x.hi.leading_zeros() as i128) } else { 0 };
                    return one(Val::Int(IntV::new(lo, hi, ITy::U32).with_taint(x.taint)));
                }
                ("rem_euclid", Some(x)) => {
                    let y = self.int_arg(st, a.get(1)?)?;
                    self.model_obligation("rem-euclid-zero", y.lo > 0 || y.hi < 0, format!("rem_euclid(_, {})", y.short()));
                    if let (Some(c), Some(m)) = (x.is_const(), y.is_const()) {
                        if m != 0 {
                            let mut r = IntV::konst(c.rem_euclid(m), x.ty).with_taint(x.taint);
                            if let Some(l) = &x.lin {
                                if m > 1 && !l.terms.is_empty() {
                                    if let Some(e) = self.atoms(st).expand_mod(l, m) {
                                        r.canon = Some(Rc::new(e));
                                    }
                                }
                            }
                            return one(Val::Int(r));
                        }
                    }
                    let m = y.lo.abs().max(y.hi.abs());
                    let mut r = IntV::new(0, (m - 1).max(0), x.ty).with_taint(x.taint | y.taint);
                    if x.lo >= 0 && x.hi < m && y.is_const().is_some() {
                        r = x.clone();
                    }
                    if let (Some(l), Some(mm)) = (&x.lin, y.is_const()) {
                        if mm > 1 {
                            if let Some(e) = self.atoms(st).expand_mod(l, mm) {
                                r.canon = Some(Rc::new(e));
                            }
                        }
                    }
                    return one(Val::Int(r));
                }
                ("wrapping_mul", Some(x)) => {
                    let y = self.int_arg(st, a.get(1)?)?;
                    return one(Val::Int(ops::arith(Arith::Mul, &x, &y, x.ty, true, &at).0));
                }
                ("wrapping_add", Some(x)) => {
                    let y = self.int_arg(st, a.get(1)?)?;
                    return one(Val::Int(ops::arith(Arith::Add, &x, &y, x.ty, true, &at).0));
                }
                ("wrapping_sub", Some(x)) => {
                    let y = self.int_arg(st, a.get(1)?)?;
                    return one(Val::Int(ops::arith(Arith::Sub, &x, &y, x.ty, true, &at).0));
                }
                ("saturating_add", Some(x)) | ("saturating_sub", Some(x)) => {
                    let y = self.int_arg(st, a.get(1)?)?;
                    let (lo, hi) = if m == "saturating_add" { (x.lo.saturating_add(y.lo), x.hi.saturating_add(y.hi)) } else { (x.lo.saturating_sub(y.hi), x.hi.saturating_sub(y.lo)) };
                    let (lo, hi) = (lo.clamp(x.ty.min(), x.ty.max()), hi.clamp(x.ty.min(), x.ty.max()));
                    return one(Val::Int(IntV::new(lo, hi, x.ty).with_taint(x.taint | y.taint)));
                }
                ("checked_add", Some(x)) | ("checked_sub", Some(x)) | ("checked_mul", Some(x)) => {
                    let y = self.int_arg(st, a.get(1)?)?;
                    let op = match m { "checked_add" => Arith::Add, "checked_sub" => Arith::Sub, _ => Arith::Mul };
                    let (v, may_overflow) = ops::arith(op, &x, &y, x.ty, false, &at);
                    let some = Val::Enum(Rc::new(EnumV { variants: [(1u32, vec![Val::Int(v.clone())])].into_iter().collect() }));
                    let none = Val::Enum(Rc::new(EnumV { variants: [(0u32, vec![])].into_iter().collect() }));
                    // exact bounds decide whether overflow is possible / certain
                    let (elo, ehi) = match op {
                        Arith::Add => (x.lo.saturating_add(y.lo), x.hi.saturating_add(y.hi)),
                        Arith::Sub => (x.lo.saturating_sub(y.hi), x.hi.saturating_sub(y.lo)),
                        Arith::Mul => {
                            let c = [x.lo.saturating_mul(y.lo), x.lo.saturating_mul(y.hi), x.hi.saturating_mul(y.lo), x.hi.saturating_mul(y.hi)];
                            (*c.iter().min().unwrap(), *c.iter().max().unwrap())
                        }
                    };
                    let always = ehi < x.ty.min() || elo > x.ty.max();
                    if always {
                        return one(none);
                    }
                    if !may_overflow {
                        return one(some);
                    }
                    return one(some.join(&none));
                }
                ("min", Some(x)) | ("max", Some(x)) => {
                    let y = self.int_arg(st, a.get(1)?)?;
                    let (lo, hi) = if m == "min" { (x.lo.min(y.lo), x.hi.min(y.hi)) } else { (x.lo.max(y.lo), x.hi.max(y.hi)) };
                    return one(Val::Int(IntV::new(lo, hi, x.ty).with_taint(x.taint | y.taint)));
                }
                ("to_be_bytes", Some(x)) => {
                    // big-endian: the little-endian bytes reversed
                    let le = self.model_call(st, &n.replace("to_be_bytes", "to_le_bytes"), _def, gargs, _inst, a, tys, ret)?;
                    return Some(le.into_iter().map(|(s, v)| {
                        let v = match v {
                            Val::Arr(arr) => {
                                let mut r = ArrV::uniform(Val::Bot, arr.len);
                                for i in 0..arr.len {
                                    r.over.insert(arr.len - 1 - i, arr.get(i).clone());
                                }
                                r.compress();
                                Val::Arr(Rc::new(r))
                            }
                            other => other,
                        };
                        (s, v)
                    }).collect());
                }
                ("to_le_bytes", Some(x)) => {
                    let nb = (x.ty.bits / 8) as u64;
                    let mut arr = ArrV::uniform(Val::Int(IntV::new(0, 255, ITy::U8).with_taint(x.taint)), nb);
                    if x.lo >= 0 {
                        for i in 0..nb {
                            let sh = 8 * i as u32;
                            let b = if x.hi < (1i128 << sh.min(120)) {
                                IntV::konst(0, ITy::U8)
                            } else if i == 0 && x.hi <= 255 {
                                let mut b = x.clone();
                                b.ty = ITy::U8;
                                b.canon = None;
                                b
                            } else if let Some(c) = x.is_const() {
                                IntV::konst((c >> sh) & 0xff, ITy::U8)
                            } else {
                                // byte i = (x >> 8i) & 255 through the low/high split of an exact form
                                let shifted = if sh == 0 { x.clone() } else { ops::shr(&x, &IntV::konst(sh as i128, ITy::U32), x.ty, &at) };
                                ops::low_bits_exact(&shifted, 8, ITy::U8, &at).unwrap_or_else(|| IntV::new(0, 255, ITy::U8))
                            };
                            arr.over.insert(i, Val::Int(b.with_taint(x.taint)));
                        }
                        arr.compress();
                    } else if let Some(c) = x.is_const() {
                        let w = (c as u128) & (u128::MAX >> (128 - x.ty.bits as u32));
                        for i in 0..nb {
                            arr.over.insert(i, Val::konst(((w >> (8 * i)) & 0xff) as i128, ITy::U8));
                        }
                    }
                    return one(Val::Arr(Rc::new(arr)));
                }
                _ => {}
            }
        }
        // ----- conversions
        if n == "core::convert::From::from" || n == "core::convert::Into::into" {
            let v = a.get(0)?;
            if let (Some(x), Some(to)) = (self.int_arg(st, v), ity_of(ret)) {
                return one(Val::Int(ops::cast(&x, to, &self.atoms(st))));
            }
            if tys.get(0).map(|t| *t == ret).unwrap_or(false) {
                return one(v.clone());
            }
            return None;
        }
        if n == "core::convert::TryFrom::try_from" || n == "core::convert::TryInto::try_into" {
            let v = a.get(0)?;
            // Result<T, E>
            let tt = match ret.kind() {
                ty::Adt(_, ra) => ra.types().next()?,
                _ => return None,
            };
            if let (Some(x), Some(to)) = (self.int_arg(st, v), ity_of(tt)) {
                let fits = x.lo >= to.min() && x.hi <= to.max();
                let never = x.hi < to.min() || x.lo > to.max();
                let mut inr = x.clone();
                inr.lo = inr.lo.max(to.min());
                inr.hi = inr.hi.min(to.max());
                inr.ty = to;
                inr.canon = None;
                let okv = res_ok(Val::Int(inr));
                if fits {
                    return one(okv);
                }
                if never {
                    return one(res_err(Val::Top));
                }
                return one(okv.join(&res_err(Val::Top)));
            }
            // <&[T; N]>::try_from(&[T])
            if let ty::Ref(_, inner, _) = tt.kind() {
                if let ty::Array(_, nn) = inner.kind() {
                    let want = self.array_len(*nn)? as i128;
                    let (base, start, len) = self.slice_elems(st, v)?;
                    if len.is_const() == Some(want) {
                        if let Some(s0) = start.is_const() {
                            // a reference to the sub-array: materialise a view as a copy in statics when offset != 0
                            if s0 == 0 {
                                if let Val::Arr(arr) = self.read_ptr(st, &base) {
                                    if arr.len as i128 == want {
                                        return one(res_ok(Val::Ref(base)));
                                    }
                                }
                            }
                            return one(res_ok(Val::Slice { base, start, len }));
                        }
                    }
                    if len.hi < want || len.lo > want {
                        return one(res_err(Val::Top));
                    }
                    return one(res_ok(Val::Slice { base, start, len: IntV::konst(want, ITy::USIZE) }).join(&res_err(Val::Top)));
                }
            }
            return None;
        }
        // ----- Result / Option plumbing
        if n == "core::result::Result::<T, E>::map_err" {
            let v = a.get(0)?.clone();
            if let Val::Enum(e) = &v {
                let mut out: Option<Val> = None;
                let mut cur = st.clone();
                for (k, fs) in &e.variants {
                    let piece = if *k == 0 {
                        res_ok(fs.get(0).cloned().unwrap_or(Val::Top))
                    } else {
                        let parts = self.call_closure(cur.clone(), &a[1], tys[1], vec![fs.get(0).cloned().unwrap_or(Val::Top)]);
                        let (s, r) = self.join_parts(parts)?;
                        cur = s;
                        res_err(r)
                    };
                    out = Some(match out {
                        Some(o) => o.join(&piece),
                        None => piece,
                    });
                }
                *st = cur;
                return one(out?);
            }
            return None;
        }
        if n == "core::result::Result::<T, E>::expect" || n == "core::result::Result::<T, E>::unwrap" || n == "core::option::Option::<T>::expect" || n == "core::option::Option::<T>::unwrap" {
            let is_opt = n.starts_with("core::option");
            let good = if is_opt { 1 } else { 0 };
            if let Val::Enum(e) = a.get(0)? {
                let ok = e.variants.len() == 1 && e.variants.contains_key(&good);
                self.model_obligation(if is_opt { "expect-none" } else { "expect-err" }, ok, format!("{}", a[0].short()));
                return match e.variants.get(&good) {
                    Some(fs) => one(fs.get(0).cloned().unwrap_or(Val::Top)),
                    None => Some(vec![]),
                };
            }
            self.model_obligation("expect-unknown", false, a[0].short());
            let v = self.top_of(ret, 0);
            return one(v);
        }
        if n == "core::result::Result::<T, E>::unwrap_or" || n == "core::option::Option::<T>::unwrap_or" {
            let good = if n.starts_with("core::option") { 1 } else { 0 };
            if let Val::Enum(e) = a.get(0)? {
                let mut out: Option<Val> = None;
                for (k, fs) in &e.variants {
                    let piece = if *k == good { fs.get(0).cloned().unwrap_or(Val::Top) } else { a.get(1)?.clone() };
                    out = Some(match out {
                        Some(o) => o.join(&piece),
                        None => piece,
                    });
                }
                return one(out?);
            }
            return None;
        }
        if n == "core::bool::<impl bool>::then_some" {
            // Some(v) when the flag holds, None otherwise
            if let Val::Int(b) = a.get(0)? {
                if b.taint != 0 {
                    // `if self { Some(t) } else { None }`: a branch on the flag (reported to C14, ignored elsewhere)
                    self.leak("select", "bool::then_some on a flag derived from tainted data");
                }
                let v = a.get(1)?.clone();
                return match b.is_const() {
                    Some(0) => one(opt_none()),
                    Some(_) => one(opt_some(v)),
                    None => one(opt_none().join(&opt_some(v))),
                };
            }
            return None;
        }
        if n == "core::option::Option::<T>::ok_or" {
            if let Val::Enum(e) = a.get(0)? {
                let mut out: Option<Val> = None;
                for (k, fs) in &e.variants {
                    let piece = if *k == 1 { res_ok(fs.get(0).cloned().unwrap_or(Val::Top)) } else { res_err(a.get(1)?.clone()) };
                    out = Some(match out {
                        Some(o) => o.join(&piece),
                        None => piece,
                    });
                }
                return one(out?);
            }
            return None;
        }
        if n == "core::cmp::Ord::min" || n == "core::cmp::Ord::max" || n == "core::cmp::min" || n == "core::cmp::max" {
            // integers only
            if let (Val::Int(x), Val::Int(y)) = (a.get(0)?, a.get(1)?) {
                if x.ty != y.ty {
                    return None;
                }
                if x.taint != 0 || y.taint != 0 {
                    self.leak("select", "Ord::min / max compares tainted data and branches on the outcome");
                }
                let r = if n.ends_with("min") { IntV::new(x.lo.min(y.lo), x.hi.min(y.hi), x.ty) } else { IntV::new(x.lo.max(y.lo), x.hi.max(y.hi), x.ty) };
                return one(Val::Int(r.with_taint(x.taint | y.taint)));
            }
            return None;
        }
        if matches!(n, "core::result::Result::<T, E>::is_ok" | "core::result::Result::<T, E>::is_err" | "core::option::Option::<T>::is_some" | "core::option::Option::<T>::is_none") {
            let v = self.deref_val(st, a.get(0)?);
            if let Val::Enum(e) = &v {
                // Result: Ok = 0, Err = 1; Option: None = 0, Some = 1
                let want = if n.ends_with("is_ok") || n.ends_with("is_none") { 0 } else { 1 };
                let has = e.variants.contains_key(&want);
                let only = has && e.variants.len() == 1;
                let r = if only { IntV::boolean(true) } else if !has { IntV::boolean(false) } else { IntV::any_bool() };
                if r.is_const().is_none() {
                    // partition by the answer so that callers branching on it keep the variant apart
                    let mut yes = std::collections::BTreeMap::new();
                    let mut no = std::collections::BTreeMap::new();
                    for (k, fs) in &e.variants {
                        if *k == want { yes.insert(*k, fs.clone()); } else { no.insert(*k, fs.clone()); }
                    }
                    if let Val::Ref(p) = a.get(0)? {
                        let mut s1 = st.clone();
                        let mut s2 = st.clone();
                        s1.refine_at(p, Val::Enum(Rc::new(EnumV { variants: yes })));
                        s2.refine_at(p, Val::Enum(Rc::new(EnumV { variants: no })));
                        return Some(vec![(Some(s1), Val::Int(IntV::boolean(true))), (Some(s2), Val::Int(IntV::boolean(false)))]);
                    }
                }
                return one(Val::Int(r));
            }
            return None;
        }
        if n == "core::ops::Try::branch" {
            // Result<T,E> -> ControlFlow<Result<Infallible,E>, T>;  Continue = 0, Break = 1
            if let Val::Enum(e) = a.get(0)? {
                let mut m = BTreeMap::new();
                for (k, fs) in &e.variants {
                    if *k == 0 {
                        m.insert(0u32, vec![fs.get(0).cloned().unwrap_or(Val::Top)]);
                    } else {
                        m.insert(1u32, vec![res_err(fs.get(0).cloned().unwrap_or(Val::Top))]);
                    }
                }
                return one(Val::Enum(Rc::new(EnumV { variants: m })));
            }
            return None;
        }
        if n == "core::ops::FromResidual::from_residual" {
            if let Val::Enum(e) = a.get(0)? {
                if let Some(fs) = e.variants.get(&1) {
                    return one(res_err(fs.get(0).cloned().unwrap_or(Val::Top)));
                }
            }
            return one(res_err(Val::Top));
        }
        // ----- slices and arrays
        if n == "core::slice::<impl [T]>::len" {
            let (_, _, len) = self.slice_elems(st, a.get(0)?)?;
            return one(Val::Int(len));
        }
        if n == "core::slice::<impl [T]>::is_empty" {
            let (_, _, len) = self.slice_elems(st, a.get(0)?)?;
            let r = match ops::compare(Cmp::Eq, &len, &IntV::konst(0, ITy::USIZE)) {
                Some(b) => IntV::boolean(b),
                None => IntV::any_bool(),
            };
            return one(Val::Int(r));
        }
        if n == "core::slice::<impl [T]>::iter" || n == "core::slice::<impl [T]>::iter_mut" {
            let (b, s, l) = self.slice_elems(st, a.get(0)?)?;
            return one(Val::Opq(Opaque::Iter(Box::new(IterV::Slice { base: Val::Slice { base: b, start: s, len: l }, pos: 0, mutable: n.ends_with("_mut") }))));
        }
        if n == "core::slice::<impl [T]>::chunks_mut" {
            let (b, s, l) = self.slice_elems(st, a.get(0)?)?;
            let c = self.int_arg(st, a.get(1)?)?.is_const()?;
            self.model_obligation("chunks-zero", c > 0, format!("chunk size {}", c));
            return one(Val::Opq(Opaque::Iter(Box::new(IterV::ChunksMut { base: Val::Slice { base: b, start: s, len: l }, chunk: c as u64, pos: 0 }))));
        }
        if n == "core::slice::<impl [T]>::copy_from_slice" {
            let (db, ds, dl) = self.slice_elems(st, a.get(0)?)?;
            let src0 = a.get(1)?;
            let srcd = match src0 {
                Val::Ref(p) => match self.read_ptr(st, p) {
                    d @ Val::Opq(Opaque::Digest { .. }) => d,
                    _ => src0.clone(),
                },
                other => other.clone(),
            };
            let src = &srcd;
            let srcv = match src {
                Val::Opq(Opaque::Digest { .. }) => None,
                _ => self.slice_elems(st, src),
            };
            let sl = match (&srcv, src) {
                (Some((_, _, l)), _) => l.clone(),
                (None, Val::Opq(Opaque::Digest { len, .. })) => IntV::konst(*len as i128, ITy::USIZE),
                _ => return None,
            };
            let same = dl.is_const().is_some() && dl.is_const() == sl.is_const();
            self.model_obligation("copy_from_slice-len", same, format!("dst len {} src len {}", dl.short(), sl.short()));
            match srcv {
                Some((sb, ss, _)) => {
                    if let (Some(d0), Some(s0), Some(nn)) = (ds.is_const(), ss.is_const(), dl.is_const()) {
                        if nn <= 8192 {
                            let src_tag = self.source_tag(st, &sb, s0, nn);
                            for i in 0..nn {
                                let v = self.read_ptr(st, &sb.push(PElem::Index(s0 + i)));
                                self.write_ptr(st, &db.push(PElem::Index(d0 + i)), v);
                            }
                            if let Some(t) = src_tag {
                                self.tag_whole(st, &db, &ds, &dl, &t);
                                self.tag_range(st, &db, d0, nn, &t);
                            }
                            return one(Val::unit());
                        }
                    }
                    let v = self.read_ptr(st, &sb.push(PElem::IndexRange(ss.lo, ss.hi + sl.hi - 1)));
                    self.write_ptr(st, &db.push(PElem::IndexRange(ds.lo, ds.hi + dl.hi - 1)), v);
                }
                None => {
                    let t = src.taint_of();
                    if let Val::Opq(Opaque::Digest { kind, len, .. }) = src {
                        let mut d = BTreeMap::new();
                        d.insert("kind".to_string(), kind.clone());
                        d.insert("digest_len".to_string(), len.to_string());
                        d.insert("dest".to_string(), self.describe_ptr(&db));
                        d.insert("dest_start".to_string(), ds.short());
                        d.insert("dest_len".to_string(), dl.short());
                        d.insert("path".to_string(), self.call_path());
                        let inst = self.stack.last().map(|b| b.name.clone()).unwrap_or_default();
                        self.probes.push(Probe { what: "digest_copy".into(), inst, ctx: String::new(), data: d });
                    }
                    let b = Val::Int(IntV::new(0, 255, ITy::U8).with_taint(t));
                    if let (Some(d0), Some(nn)) = (ds.is_const(), dl.is_const()) {
                        for i in 0..nn {
                            self.write_ptr(st, &db.push(PElem::Index(d0 + i)), b.clone());
                        }
                    } else {
                        self.write_ptr(st, &db.push(PElem::IndexRange(ds.lo, ds.hi + dl.hi - 1)), b);
                    }
                }
            }
            return one(Val::unit());
        }
        if n == "core::ops::Index::index" || n == "core::ops::IndexMut::index_mut" {
            // only range indexing reaches here (scalar indexing is a MIR projection)
            let (b, s, l) = self.slice_elems(st, a.get(0)?)?;
            let r = a.get(1)?;
            let (lo, hi): (IntV, IntV) = match r {
                Val::Tuple(t) if t.len() == 2 => (self.int_arg(st, &t[0])?, self.int_arg(st, &t[1])?),
                Val::Tuple(t) if t.len() == 1 => {
                    // RangeFrom { start } or RangeTo { end }: decide by type name
                    let tn = format!("{:?}", tys.get(1)?);
                    let x = self.int_arg(st, &t[0])?;
                    if tn.contains("RangeFrom") {
                        (x, l.clone())
                    } else if tn.contains("RangeTo") {
                        (IntV::konst(0, ITy::USIZE), x)
                    } else {
                        return None;
                    }
                }
                Val::Tuple(t) if t.is_empty() => (IntV::konst(0, ITy::USIZE), l.clone()),
                _ => return None,
            };
            let ok = lo.hi <= hi.lo && hi.hi <= l.lo;
            self.model_obligation("slice-range", ok, format!("[{}..{}] of len {}", lo.short(), hi.short(), l.short()));
            if self.stack.last().map(|b| b.name.starts_with("encodings::")).unwrap_or(false) {
                let mut d = BTreeMap::new();
                d.insert("base".to_string(), self.describe_ptr(&b));
                d.insert("base_start".to_string(), s.short());
                d.insert("lo".to_string(), lo.short());
                d.insert("hi".to_string(), hi.short());
                d.insert("of_len".to_string(), l.short());
                d.insert("mutable".to_string(), n.ends_with("index_mut").to_string());
                d.insert("path".to_string(), self.call_path());
                let inst = self.stack.last().map(|b| b.name.clone()).unwrap_or_default();
                self.probes.push(Probe { what: "range".into(), inst, ctx: String::new(), data: d });
            }
            let at = self.atoms(st);
            let ns = ops::arith(Arith::Add, &s, &lo, ITy::USIZE, true, &at).0;
            let mut nl = ops::arith(Arith::Sub, &hi, &lo, ITy::USIZE, false, &at).0;
            nl.lo = nl.lo.max(0);
            return one(Val::Slice { base: b, start: ns.plain(), len: nl });
        }
        if n == "core::array::<impl core::ops::Index<I> for [T; N]>::index" || n == "core::array::<impl core::ops::IndexMut<I> for [T; N]>::index_mut" {
            // array[range] delegates to the slice impl
            return self.model_call(st, "core::ops::Index::index", _def, gargs, None, a, tys, ret);
        }
        if n == "core::array::from_fn" {
            let nn = match ret.kind() {
                ty::Array(_, c) => self.array_len(*c)?,
                _ => return None,
            };
            let mut arr = ArrV::uniform(Val::Bot, nn);
            let f = a.get(0)?.clone();
            let slot = self.temp_slot(st, f);
            if self.fast_from_fn && nn >= 2 {
                // one call on the abstract index [0, N-1] stands for every element
                let cur = std::mem::replace(st, State::empty());
                let parts = self.call_closure(cur, &Val::Ref(slot.clone()), tys[0], vec![Val::Int(IntV::new(0, nn as i128 - 1, ITy::USIZE))]);
                let (s, r) = self.join_parts(parts)?;
                *st = s;
                self.free_temp(st, &slot);
                return one(Val::Arr(Rc::new(ArrV::uniform(r, nn))));
            }
            let mut cur = std::mem::replace(st, State::empty());
            for i in 0..nn {
                let parts = self.call_closure(cur, &Val::Ref(slot.clone()), tys[0], vec![Val::konst(i as i128, ITy::USIZE)]);
                let Some((s, r)) = self.join_parts(parts) else {
                    return Some(vec![]);
                };
                cur = s;
                arr.over.insert(i, r);
                if self.over_budget {
                    break;
                }
            }
            arr.compress();
            *st = cur;
            self.free_temp(st, &slot);
            return one(Val::Arr(Rc::new(arr)));
        }
        // ----- iterators
        if n == "core::iter::IntoIterator::into_iter" {
            let v = a.get(0)?;
            return match v {
                Val::Tuple(_) => one(v.clone()), // ranges
                Val::Opq(Opaque::Iter(_)) => one(v.clone()),
                Val::Arr(_) => one(Val::Opq(Opaque::Iter(Box::new(IterV::ArrayInto { arr: v.clone(), pos: 0 })))),
                _ => {
                    let it = self.iter_of(st, v)?;
                    one(Val::Opq(Opaque::Iter(Box::new(it))))
                }
            };
        }
        if n == "core::iter::Iterator::next" {
            let Val::Ref(p) = a.get(0)? else { return None };
            let cur = self.read_ptr(st, p);
            match cur {
                Val::Tuple(t) if t.len() == 2 => {
                    // Range { start, end }
                    let (s, e) = (self.int_arg(st, &t[0])?, self.int_arg(st, &t[1])?);
                    match ops::compare(Cmp::Lt, &s, &e) {
                        Some(true) => {
                            let at = self.atoms(st);
                            let nx = ops::arith(Arith::Add, &s, &IntV::konst(1, s.ty), s.ty, true, &at).0;
                            self.write_ptr(st, p, Val::Tuple(Rc::new(vec![Val::Int(nx), Val::Int(e)])));
                            return one(opt_some(Val::Int(s)));
                        }
                        Some(false) => return one(opt_none()),
                        None => {
                            // both outcomes: Some(s) with s < e, advancing; or None
                            let (rs, re) = ops::refine(Cmp::Lt, &s, &e)?;
                            let at = self.atoms(st);
                            let nx = ops::arith(Arith::Add, &rs, &IntV::konst(1, s.ty), s.ty, true, &at).0;
                            let mut s_some = st.clone();
                            self.write_ptr(&mut s_some, p, Val::Tuple(Rc::new(vec![Val::Int(nx.plain()), Val::Int(re)])));
                            let s_none = st.clone();
                            return Some(vec![(Some(s_some), opt_some(Val::Int(rs.plain()))), (Some(s_none), opt_none())]);
                        }
                    }
                }
                Val::Tuple(t) if t.len() == 3 => {
                    // RangeInclusive { start, end, exhausted }
                    let (s, e, x) = (self.int_arg(st, &t[0])?, self.int_arg(st, &t[1])?, self.int_arg(st, &t[2])?);
                    let (Some(sc), Some(ec), Some(xc)) = (s.is_const(), e.is_const(), x.is_const()) else { return None };
                    if xc != 0 || sc > ec {
                        return one(opt_none());
                    }
                    let (ns, nx) = if sc < ec { (sc + 1, 0) } else { (sc, 1) };
                    self.write_ptr(st, p, Val::Tuple(Rc::new(vec![Val::konst(ns, s.ty), Val::Int(e), Val::konst(nx, ITy::BOOL)])));
                    return one(opt_some(Val::Int(s)));
                }
                Val::Opq(Opaque::Iter(mut it)) => {
                    let r = self.iter_next(st, &mut it);
                    self.write_ptr(st, p, Val::Opq(Opaque::Iter(it)));
                    return match r {
                        Next::Item(v, false) => one(opt_some(v)),
                        Next::Item(v, true) => one(opt_some(v).join(&opt_none())),
                        Next::Done => one(opt_none()),
                        Next::Unknown => None,
                    };
                }
                _ => return None,
            }
        }
        if n == "core::ops::RangeInclusive::<Idx>::new" {
            return one(Val::Tuple(Rc::new(vec![a.get(0)?.clone(), a.get(1)?.clone(), Val::konst(0, ITy::BOOL)])));
        }
        if n == "core::ops::Range::<Idx>::contains" || n == "core::ops::RangeInclusive::<Idx>::contains" {
            let r = self.deref_val(st, a.get(0)?);
            let x = self.deref_val(st, a.get(1)?);
            let (Val::Tuple(t), Some(x)) = (r, self.int_arg(st, &x)) else { return None };
            let (lo, hi) = (self.int_arg(st, &t[0])?, self.int_arg(st, &t[1])?);
            let incl = n.contains("Inclusive");
            let c1 = ops::compare(Cmp::Le, &lo, &x);
            let c2 = ops::compare(if incl { Cmp::Le } else { Cmp::Lt }, &x, &hi);
            let r = match (c1, c2) {
                (Some(true), Some(true)) => IntV::boolean(true),
                (Some(false), _) | (_, Some(false)) => IntV::boolean(false),
                _ => IntV::any_bool(),
            };
            return one(Val::Int(r.with_taint(x.taint)));
        }
        if matches!(n, "core::iter::Iterator::map" | "core::iter::Iterator::filter" | "core::iter::Iterator::flat_map") {
            let inner = Box::new(self.iter_of(st, a.get(0)?)?);
            let f = a.get(1)?.clone();
            let fty = self.closure_ty_ix(*tys.get(1)?);
            let it = match n {
                "core::iter::Iterator::map" => IterV::Map { inner, f, fty },
                "core::iter::Iterator::filter" => IterV::Filter { inner, f, fty },
                _ => IterV::FlatMap { inner, f, fty, cur: None },
            };
            return one(Val::Opq(Opaque::Iter(Box::new(it))));
        }
        if n == "core::iter::Iterator::enumerate" {
            let inner = Box::new(self.iter_of(st, a.get(0)?)?);
            return one(Val::Opq(Opaque::Iter(Box::new(IterV::Enumerate { inner, count: 0 }))));
        }
        if n == "core::iter::Iterator::zip" {
            let ia = Box::new(self.iter_of(st, a.get(0)?)?);
            let ib = Box::new(self.iter_of(st, a.get(1)?)?);
            return one(Val::Opq(Opaque::Iter(Box::new(IterV::Zip { a: ia, b: ib }))));
        }
        if n == "core::iter::Iterator::take" {
            let inner = Box::new(self.iter_of(st, a.get(0)?)?);
            let k = self.int_arg(st, a.get(1)?)?.is_const()?;
            return one(Val::Opq(Opaque::Iter(Box::new(IterV::Take { inner, n: k as u64 }))));
        }
        if n == "core::iter::Iterator::for_each" {
            let mut it = self.iter_of(st, a.get(0)?)?;
            let f = a.get(1)?.clone();
            let slot = self.temp_slot(st, f);
            loop {
                match self.iter_next(st, &mut it) {
                    Next::Item(v, _) => {
                        let parts = self.call_closure(std::mem::replace(st, State::empty()), &Val::Ref(slot.clone()), tys[1], vec![v]);
                        let (s, _) = self.join_parts(parts)?;
                        *st = s;
                    }
                    Next::Done => break,
                    Next::Unknown => {
                        self.free_temp(st, &slot);
                        return None;
                    }
                }
                if self.over_budget {
                    break;
                }
            }
            self.free_temp(st, &slot);
            return one(Val::unit());
        }
        if n == "core::iter::Iterator::all" || n == "core::iter::Iterator::any" {
            // `all` goes on while the predicate is true and stops with false; `any` is the dual
            let go_on: i128 = if n == "core::iter::Iterator::all" { 1 } else { 0 };
            let stop: i128 = 1 - go_on;
            // receiver is &mut iterator
            let recv = a.get(0)?;
            let mut it = self.iter_of(st, recv)?;
            let f = a.get(1)?.clone();
            let mut cur = st.clone();
            let slot = self.temp_slot(&mut cur, f);
            let mut false_acc: Option<State> = None;
            let mut alive = true;
            let mut wit: Option<Val> = None;
            loop {
                match self.iter_next(&mut cur, &mut it) {
                    Next::Item(v, maybe) => {
                        let parts = self.call_closure(cur.clone(), &Val::Ref(slot.clone()), tys[1], vec![v.clone()]);
                        let mut t_state: Option<State> = None;
                        if self.taint_track {
                            // an undecided predicate may come back as one partition per outcome, each a constant
                            let outcomes: std::collections::BTreeSet<Option<i128>> = parts.iter().map(|(_, r)| r.as_int().and_then(|i| i.is_const())).collect();
                            if outcomes.len() > 1 && parts.iter().any(|(_, r)| r.taint_of() != 0) {
                                self.leak(if go_on == 1 { "iterator-all" } else { "iterator-any" }, "short-circuit on a predicate over tainted data");
                            }
                        }
                        for (s, r) in parts {
                            let c = r.as_int().and_then(|i| i.is_const());
                            if self.taint_track && r.taint_of() != 0 && c.is_none() {
                                // stops at the first deciding element: the position of that secret element leaks
                                self.leak(if go_on == 1 { "iterator-all" } else { "iterator-any" }, "short-circuit on a predicate over tainted data");
                            }
                            if c != Some(stop) {
                                t_state = Some(match t_state {
                                    Some(x) => x.join(&s),
                                    None => s.clone(),
                                });
                            }
                            if c != Some(go_on) {
                                // element value on the rejecting path (for reject-witness probes)
                                let ev = match &v {
                                    Val::Ref(p) => self.read_ptr(&s, p),
                                    other => other.clone(),
                                };
                                wit = Some(match wit {
                                    Some(w) => w.join(&ev),
                                    None => ev,
                                });
                                false_acc = Some(match false_acc {
                                    Some(x) => x.join(&s),
                                    None => s,
                                });
                            }
                        }
                        match t_state {
                            Some(t) => cur = if maybe { t.join(&cur) } else { t },
                            None => {
                                if !maybe {
                                    alive = false;
                                    break;
                                }
                            }
                        }
                    }
                    Next::Done => break,
                    Next::Unknown => return None,
                }
                if self.over_budget {
                    break;
                }
            }
            if let Some(w) = wit {
                self.reject_witness.push(w);
            }
            let mut out: Parts = Vec::new();
            if alive {
                self.free_temp(&mut cur, &slot);
                out.push((Some(cur), Val::Int(IntV::boolean(go_on == 1))));
            }
            if let Some(mut f) = false_acc {
                self.free_temp(&mut f, &slot);
                out.push((Some(f), Val::Int(IntV::boolean(go_on == 0))));
            }
            return Some(out);
        }
        if n == "core::iter::Iterator::sum" {
            let mut it = self.iter_of(st, a.get(0)?)?;
            let it_ty = ity_of(ret)?;
            let mut acc = IntV::konst(0, it_ty);
            let mut ovf = false;
            loop {
                match self.iter_next(st, &mut it) {
                    Next::Item(v, maybe) => {
                        let v = self.deref_val(st, &v);
                        let x = self.int_arg(st, &v)?;
                        let at = self.atoms(st);
                        let (s, may) = ops::arith(Arith::Add, &acc.plain(), &x.plain(), it_ty, false, &at);
                        ovf |= may;
                        acc = if maybe { acc.join(&s) } else { s };
                    }
                    Next::Done => break,
                    Next::Unknown => return None,
                }
            }
            self.model_obligation("sum-overflow", !ovf, format!("sum {}", acc.short()));
            return one(Val::Int(acc));
        }
        if n == "core::iter::Iterator::max" {
            let mut it = self.iter_of(st, a.get(0)?)?;
            let mut acc: Option<IntV> = None;
            let mut maybe_empty = true;
            loop {
                match self.iter_next(st, &mut it) {
                    Next::Item(v, maybe) => {
                        let v = self.deref_val(st, &v);
                        let x = self.int_arg(st, &v)?;
                        if self.taint_track && x.taint != 0 {
                            self.leak("iterator-max", "compare-select on secret (allow-listed candidate)");
                        }
                        acc = Some(match acc {
                            None => x.plain(),
                            Some(c) => {
                                let mut r = IntV::new(if maybe { c.lo } else { c.lo.max(x.lo) }, c.hi.max(x.hi), c.ty);
                                r.taint = c.taint | x.taint;
                                r
                            }
                        });
                        if !maybe {
                            maybe_empty = false;
                        }
                    }
                    Next::Done => break,
                    Next::Unknown => return None,
                }
            }
            return match acc {
                Some(x) if !maybe_empty => one(opt_some(Val::Int(x))),
                Some(x) => one(opt_some(Val::Int(x)).join(&opt_none())),
                None => one(opt_none()),
            };
        }
        // ----- comparisons / clones on aggregates
        if n == "core::cmp::PartialEq::eq" || n == "core::cmp::PartialEq::ne" {
            let x = self.deref_val(st, a.get(0)?);
            let y = self.deref_val(st, a.get(1)?);
            // only structural values (arrays / ints / tuples) are modelled; user impls are interpreted
            if let Some(inst) = _inst {
                if inst.def_id().krate == rustc_span::def_id::LOCAL_CRATE {
                    return None;
                }
            }
            let r = self.struct_eq(st, &x, &y);
            if let (Val::Arr(ax), Val::Arr(ay)) = (&x, &y) {
                let mut d = BTreeMap::new();
                d.insert("len_a".to_string(), ax.len.to_string());
                d.insert("len_b".to_string(), ay.len.to_string());
                d.insert("src_a".to_string(), match a.get(0) { Some(Val::Ref(p)) => self.describe_ptr(p), Some(Val::Slice { base, start, len }) => format!("{}[{}..+{}]", self.describe_ptr(base), start.short(), len.short()), _ => "value".into() });
                d.insert("src_b".to_string(), match a.get(1) { Some(Val::Ref(p)) => self.describe_ptr(p), Some(Val::Slice { base, start, len }) => format!("{}[{}..+{}]", self.describe_ptr(base), start.short(), len.short()), _ => "value".into() });
                d.insert("path".to_string(), self.call_path());
                let inst = self.stack.last().map(|b| b.name.clone()).unwrap_or_default();
                self.probes.push(Probe { what: "array_eq".into(), inst, ctx: String::new(), data: d });
            }
            let r = if n.ends_with("::ne") { r.map(|b| !b) } else { r };
            let t = x.taint_of() | y.taint_of();
            if self.taint_track && t != 0 && matches!(x, Val::Arr(_)) {
                self.leak("array-eq", "early-exit comparison of arrays holding tainted data");
            }
            return one(Val::Int(match r {
                Some(b) => IntV::boolean(b).with_taint(t),
                None => IntV::any_bool().with_taint(t),
            }));
        }
        if n == "core::clone::Clone::clone" {
            if let Some(inst) = _inst {
                if inst.def_id().krate == rustc_span::def_id::LOCAL_CRATE {
                    return None;
                }
            }
            return one(self.deref_val(st, a.get(0)?));
        }
        if n == "core::ops::Deref::deref" || n == "core::ops::DerefMut::deref_mut" {
            // GenericArray<u8, N> -> [u8]
            let v = self.deref_val(st, a.get(0)?);
            if let Val::Opq(Opaque::Digest { .. }) = v {
                // keep a reference (to the digest value) so that reborrows `&*x` stay meaningful
                return one(a[0].clone());
            }
            return None;
        }
        // ----- hashing (opaque, trusted)
        if n == "core::default::Default::default" || n == "digest::Digest::new" {
            let tn = format!("{:?}", ret);
            for k in ["Shake256", "Shake128", "Sha256", "Sha512"] {
                if tn.contains(k) {
                    return one(Val::Opq(Opaque::Hasher { kind: k.into(), absorbed: Rc::new(vec![]) }));
                }
            }
            return None;
        }
        if n == "digest::Update::update" || n == "digest::Digest::update" {
            let Val::Ref(p) = a.get(0)? else { return None };
            let Val::Opq(Opaque::Hasher { kind, absorbed }) = self.read_ptr(st, p) else { return None };
            let item = self.describe_bytes(st, a.get(1)?);
            let mut v = (*absorbed).clone();
            v.push(item);
            self.write_ptr(st, p, Val::Opq(Opaque::Hasher { kind, absorbed: Rc::new(v) }));
            return one(Val::unit());
        }
        if n == "digest::ExtendableOutput::finalize_xof" {
            let Val::Opq(Opaque::Hasher { kind, absorbed }) = a.get(0)?.clone() else { return None };
            self.xof_counter += 1;
            let id = self.xof_counter;
            let mut d = BTreeMap::new();
            d.insert("kind".to_string(), kind.clone());
            d.insert("id".to_string(), id.to_string());
            d.insert("absorbed".to_string(), render_absorbed(&absorbed));
            d.insert("items".to_string(), absorbed_json(&absorbed));
            d.insert("path".to_string(), self.call_path());
            let ctx = self.stack.iter().rev().skip(1).next().map(|b| b.name.clone()).unwrap_or_default();
            let inst = self.stack.last().map(|b| b.name.clone()).unwrap_or_default();
            self.probes.push(Probe { what: "xof".into(), inst, ctx, data: d });
            return one(Val::Opq(Opaque::Xof { kind, absorbed, pos_lo: 0, pos_hi: 0, id }));
        }
        if n == "digest::Digest::finalize" {
            let Val::Opq(Opaque::Hasher { kind, absorbed }) = a.get(0)?.clone() else { return None };
            let len = if kind == "Sha512" { 64 } else { 32 };
            let taint = absorbed.iter().fold(0, |t, x| t | x.taint);
            let mut d = BTreeMap::new();
            d.insert("kind".to_string(), kind.clone());
            d.insert("absorbed".to_string(), render_absorbed(&absorbed));
            d.insert("items".to_string(), absorbed_json(&absorbed));
            d.insert("path".to_string(), self.call_path());
            d.insert("len".to_string(), len.to_string());
            let inst = self.stack.last().map(|b| b.name.clone()).unwrap_or_default();
            self.probes.push(Probe { what: "digest".into(), inst, ctx: String::new(), data: d });
            return one(Val::Opq(Opaque::Digest { kind, absorbed, len, taint }));
        }
        if n == "digest::XofReader::read" {
            let Val::Ref(p) = a.get(0)? else { return None };
            let Val::Opq(Opaque::Xof { kind, absorbed, pos_lo, pos_hi, id }) = self.read_ptr(st, p) else { return None };
            let (b, s, l) = self.slice_elems(st, a.get(1)?)?;
            let taint = absorbed.iter().fold(0, |t, x| t | x.taint);
            let byte = Val::Int(IntV::new(0, 255, ITy::U8).with_taint(taint));
            if let (Some(s0), Some(nn)) = (s.is_const(), l.is_const()) {
                if nn <= 4096 {
                    for i in 0..nn {
                        self.write_ptr(st, &b.push(PElem::Index(s0 + i)), byte.clone());
                    }
                } else {
                    self.write_ptr(st, &b.push(PElem::IndexRange(s0, s0 + nn - 1)), byte.clone());
                    // weak update keeps old contents joined; acceptable over-approximation
                }
            } else {
                self.write_ptr(st, &b.push(PElem::IndexRange(s.lo, s.hi + l.hi - 1)), byte);
            }
            if pos_lo == pos_hi {
                self.tag_whole(st, &b, &s, &l, &format!("xof{}@{}+{}", id, pos_lo, l.short()));
            }
            let mut d = BTreeMap::new();
            d.insert("id".to_string(), id.to_string());
            d.insert("kind".to_string(), kind.clone());
            d.insert("off".to_string(), format!("{}..{}", pos_lo, pos_hi));
            d.insert("len".to_string(), l.short());
            d.insert("dest".to_string(), self.describe_ptr(&b));
            d.insert("dest_start".to_string(), s.short());
            d.insert("path".to_string(), self.call_path());
            let inst = self.stack.last().map(|b| b.name.clone()).unwrap_or_default();
            // rejection-sampling loops read thousands of times: keep the first few reads per reader
            let cnt = self.xof_reads.entry(id).or_insert(0);
            *cnt += 1;
            if *cnt <= 4 {
                self.probes.push(Probe { what: "xof_read".into(), inst, ctx: String::new(), data: d });
            }
            self.write_ptr(st, p, Val::Opq(Opaque::Xof { kind, absorbed, pos_lo: pos_lo.saturating_add(l.lo), pos_hi: pos_hi.saturating_add(l.hi), id }));
            return one(Val::unit());
        }
        // ----- randomness
        if n == "rand_core::RngCore::try_fill_bytes" {
            let (b, s, l) = self.slice_elems(st, a.get(1)?)?;
            let mut d = BTreeMap::new();
            d.insert("len".to_string(), l.short());
            d.insert("dest".to_string(), self.describe_ptr(&b));
            d.insert("dest_start".to_string(), s.short());
            let whole = match self.read_ptr(st, &b) {
                Val::Arr(arr) => s.is_const() == Some(0) && l.is_const() == Some(arr.len as i128),
                _ => false,
            };
            d.insert("covers_whole_buffer".to_string(), whole.to_string());
            d.insert("request_index".to_string(), if st.rng_count == u32::MAX { "?".to_string() } else { st.rng_count.to_string() });
            let inst = self.stack.last().map(|b| b.name.clone()).unwrap_or_default();
            self.probes.push(Probe { what: "rng_call".into(), inst, ctx: String::new(), data: d });
            let mut s_ok = st.clone();
            let byte = Val::Int(IntV::new(0, 255, ITy::U8).with_taint(T_RNG));
            self.write_ptr(&mut s_ok, &b.push(PElem::IndexRange(s.lo, s.hi + l.hi - 1)), byte.clone());
            // strong overwrite when concrete
            if let (Some(s0), Some(nn)) = (s.is_const(), l.is_const()) {
                for i in 0..nn.min(4096) {
                    self.write_ptr(&mut s_ok, &b.push(PElem::Index(s0 + i)), byte.clone());
                }
            }
            if st.rng_count != u32::MAX {
                self.tag_whole(&mut s_ok, &b, &s, &l, &format!("rng{}", st.rng_count));
            }
            // failure may leave the buffer partially written
            let mut s_err = st.clone();
            self.write_ptr(&mut s_err, &b.push(PElem::IndexRange(s.lo, s.hi + l.hi - 1)), byte);
            let idx = st.rng_count;
            if idx != u32::MAX {
                s_ok.rng_count = idx + 1;
                s_err.rng_count = idx + 1;
            }
            let ok = (Some(s_ok), res_ok(Val::unit()));
            let err = (Some(s_err), res_err(Val::Top));
            return Some(match self.rng_mode {
                1 => vec![ok],
                2 => vec![err],
                m if m >= 3 => {
                    // fault injection: exactly request number (m - 3) fails
                    if idx == u32::MAX {
                        vec![ok, err]
                    } else if idx == (m as u32 - 3) {
                        vec![err]
                    } else {
                        vec![ok]
                    }
                }
                _ => vec![ok, err],
            });
        }
        if n.starts_with("rand_core::RngCore::") || n.starts_with("rand_core::CryptoRng") {
            // any other generator method is forbidden by C12 R1; record it
            let inst = self.stack.last().map(|b| b.name.clone()).unwrap_or_default();
            let mut d = BTreeMap::new();
            d.insert("method".to_string(), n.to_string());
            self.probes.push(Probe { what: "rng_other_method".into(), inst, ctx: String::new(), data: d });
            return None;
        }
        None
    }

    fn struct_eq(&self, st: &State, x: &Val, y: &Val) -> Option<bool> {
        match (x, y) {
            (Val::Int(a), Val::Int(b)) => {
                let at = self.atoms(st);
                let (a, b) = (at.concretize(a)?, at.concretize(b)?);
                ops::compare(Cmp::Eq, &a, &b)
            }
            (Val::Arr(a), Val::Arr(b)) if a.len == b.len => {
                if Rc::ptr_eq(a, b) {
                    return Some(true);
                }
                let mut all_true = true;
                let keys: std::collections::BTreeSet<u64> = a.over.keys().chain(b.over.keys()).cloned().collect();
                let mut check = |p: &Val, q: &Val| -> Option<bool> { self.struct_eq(st, p, q) };
                if (keys.len() as u64) < a.len {
                    match check(&a.default, &b.default) {
                        Some(false) => return Some(false),
                        Some(true) => {}
                        None => all_true = false,
                    }
                }
                for k in keys {
                    match check(a.get(k), b.get(k)) {
                        Some(false) => return Some(false),
                        Some(true) => {}
                        None => all_true = false,
                    }
                }
                if all_true {
                    Some(true)
                } else {
                    None
                }
            }
            (Val::Tuple(a), Val::Tuple(b)) if a.len() == b.len() => {
                let mut all_true = true;
                for (p, q) in a.iter().zip(b.iter()) {
                    match self.struct_eq(st, p, q) {
                        Some(false) => return Some(false),
                        Some(true) => {}
                        None => all_true = false,
                    }
                }
                if all_true {
                    Some(true)
                } else {
                    None
                }
            }
            _ => None,
        }
    }

    /// mark the array at `b` as an exact copy of `tag` when [s, s+l) is the whole array
    pub fn tag_whole(&mut self, st: &mut State, b: &Ptr, s: &IntV, l: &IntV, tag: &str) {
        if let Val::Arr(arr) = self.read_ptr(st, b) {
            if s.is_const() == Some(0) && l.is_const() == Some(arr.len as i128) && b.frame != STATICS {
                let v = Val::Arr(arr).with_tag(tag);
                st.refine_at(b, v);
            }
        }
    }

    /// mark bytes [d0, d0+n) of the array at `b` as an exact copy of `tag` (proper sub-range)
    pub fn tag_range(&mut self, st: &mut State, b: &Ptr, d0: i128, n: i128, tag: &str) {
        if let Val::Arr(arr) = self.read_ptr(st, b) {
            if d0 >= 0 && n > 0 && ((d0 + n) as u64) <= arr.len && !(d0 == 0 && n as u64 == arr.len) && b.frame != STATICS {
                let mut r = (*arr).clone();
                let (lo, hi) = (d0 as u64, (d0 + n) as u64);
                r.segs.retain(|s| s.1 <= lo || s.0 >= hi);
                r.segs.push((lo, hi, Rc::from(tag)));
                r.segs.sort();
                st.refine_at(b, Val::Arr(Rc::new(r)));
            }
        }
    }

    /// provenance of the byte range [s0, s0+n) of the array at `sb`: its own tag when the range is the
    /// whole tagged array, a range of a root input buffer (never written by the library) otherwise
    pub fn source_tag(&self, st: &State, sb: &Ptr, s0: i128, n: i128) -> Option<String> {
        if let Val::Arr(arr) = self.read_ptr(st, sb) {
            if let Some(t) = &arr.tag {
                if s0 == 0 && n == arr.len as i128 {
                    return Some(t.to_string());
                }
                return Some(format!("{}[{}..{}]", t, s0, s0 + n));
            }
            for (lo, hi, t) in arr.segs.iter() {
                let (lo, hi) = (*lo as i128, *hi as i128);
                if lo == s0 && hi == s0 + n {
                    return Some(t.to_string());
                }
                if lo <= s0 && s0 + n <= hi {
                    return Some(format!("{}[{}..{}]", t, s0 - lo, s0 + n - lo));
                }
            }
            if sb.frame == 0 {
                return Some(format!("{}[{}..{}]", self.describe_ptr(sb), s0, s0 + n));
            }
        }
        None
    }

    pub fn describe_ptr(&self, p: &Ptr) -> String {
        if p.frame == STATICS {
            return "const".into();
        }
        if p.frame == 0 {
            let nm = self.input_names.get(p.local as usize).cloned().unwrap_or_else(|| format!("_{}", p.local));
            let mut s = format!("in.{}", nm);
            for e in p.proj.iter() {
                match e {
                    PElem::Field(f) => s.push_str(&format!(".{}", f)),
                    PElem::Index(i) => s.push_str(&format!("[{}]", i)),
                    PElem::IndexRange(a, b) => s.push_str(&format!("[{}..={}]", a, b)),
                    PElem::Downcast(v) => s.push_str(&format!("@{}", v)),
                }
            }
            return s;
        }
        let depth = p.frame as usize - 1;
        let (fname, lname) = match self.stack.get(depth) {
            Some(bi) => {
                let mut ln = format!("_{}", p.local);
                for vdi in &bi.body.var_debug_info {
                    if let rustc_middle::mir::VarDebugInfoContents::Place(pl) = &vdi.value {
                        if pl.local.as_u32() == p.local && pl.projection.is_empty() {
                            ln = vdi.name.to_string();
                        }
                    }
                }
                (bi.short.clone(), ln)
            }
            None => ("?".into(), format!("_{}", p.local)),
        };
        let mut s = format!("{}.{}", fname, lname);
        for e in p.proj.iter() {
            match e {
                PElem::Field(f) => s.push_str(&format!(".{}", f)),
                PElem::Index(i) => s.push_str(&format!("[{}]", i)),
                PElem::IndexRange(a, b) => s.push_str(&format!("[{}..={}]", a, b)),
                PElem::Downcast(v) => s.push_str(&format!("@{}", v)),
            }
        }
        s
    }

    /// describe a byte-slice argument being absorbed by a hash
    pub fn describe_bytes(&self, st: &State, v: &Val) -> Absorb {
        match v {
            Val::Opq(Opaque::Digest { kind, len, taint, .. }) => Absorb { src: format!("digest<{}>", kind), len_lo: *len as i128, len_hi: *len as i128, consts: None, taint: *taint, taint_all: *taint, whole: false, lin: None, tag: None },
            _ => match self.slice_elems(st, v) {
                Some((b, s, l)) => {
                    let mut src = self.describe_ptr(&b);
                    let full = match self.read_ptr(st, &b) {
                        Val::Arr(a) => s.is_const() == Some(0) && l.is_const() == Some(a.len as i128) && a.len < (1 << 40),
                        _ => false,
                    };
                    if !full {
                        src.push_str(&format!("[{}..+{}]", s.short(), l.short()));
                    }
                    let mut consts = None;
                    let mut taint = 0;
                    let mut taint_all = 0xffu8;
                    let mut lin = None;
                    if let (Some(s0), Some(nn)) = (s.is_const(), l.is_const()) {
                        if nn <= 64 {
                            let mut cs = Vec::new();
                            let mut all_const = true;
                            for i in 0..nn {
                                let e = self.read_ptr(st, &b.push(PElem::Index(s0 + i)));
                                taint |= e.taint_of();
                                taint_all &= e.taint_of();
                                match &e {
                                    Val::Int(x) => {
                                        let x = self.atoms(st).concretize(x).unwrap_or_else(|| x.clone());
                                        if nn == 1 {
                                            lin = Some(match &x.lin {
                                                Some(l) => format!("{} in [{},{}]", self.render_lin(l), x.lo, x.hi),
                                                None => format!("[{},{}]", x.lo, x.hi),
                                            });
                                        }
                                        match x.is_const() {
                                            Some(c) => cs.push(c as u8),
                                            None => all_const = false,
                                        }
                                    }
                                    _ => all_const = false,
                                }
                            }
                            if !all_const {
                                cs.clear();
                            }
                            if cs.len() as i128 == nn && nn > 0 {
                                consts = Some(cs);
                            }
                        } else {
                            let e = self.read_ptr(st, &b.push(PElem::IndexRange(s0, s0 + nn - 1)));
                            taint |= e.taint_of();
                            taint_all = 0;
                        }
                    } else {
                        let e = self.read_ptr(st, &b.push(PElem::IndexRange(s.lo, s.hi.saturating_add(l.hi))));
                        taint |= e.taint_of();
                        taint_all = 0;
                    }
                    if l.is_const() == Some(0) {
                        taint_all = 0;
                    }
                    // whole input slice: starts at 0 and its length is the input's own length symbol
                    let whole = b.frame == 0 && b.proj.is_empty() && s.is_const() == Some(0) && match (&l.lin, self.input_names.get(b.local as usize)) {
                        (Some(ll), Some(nm)) => match ll.single() {
                            Some((a, 1, 0)) => self.atom_names.get(&a).map(|x| *x == format!("len({})", nm)).unwrap_or(false),
                            _ => false,
                        },
                        _ => false,
                    };
                    let tag = match (s.is_const(), l.is_const()) {
                        (Some(s0), Some(nn)) if nn > 0 => self.source_tag(st, &b, s0, nn),
                        _ => None,
                    };
                    Absorb { src, len_lo: l.lo, len_hi: l.hi, consts, taint, taint_all, whole, lin, tag }
                }
                None => Absorb { src: format!("?{}", v.short()), len_lo: 0, len_hi: i128::MAX, consts: None, taint: 3, taint_all: 0, whole: false, lin: None, tag: None },
            },
        }
    }

    pub fn render_lin(&self, l: &Lin) -> String {
        let mut s = String::new();
        for (a, c) in &l.terms {
            let nm = self.atom_names.get(a).cloned().unwrap_or_else(|| format!("a{}", a));
            s.push_str(&format!("{}*{} + ", c, nm));
        }
        s.push_str(&format!("{}", l.d));
        if l.m != 0 {
            s.push_str(&format!(" (mod {})", l.m));
        }
        s
    }
}

pub fn absorbed_json(v: &[Absorb]) -> String {
    use crate::json::J;
    J::Arr(v.iter().map(|a| {
        let mut o = J::obj();
        o.set("src", J::s(a.src.clone()));
        o.set("len", J::Arr(vec![J::Int(a.len_lo), J::Int(a.len_hi.min(1i128 << 62))]));
        o.set("consts", match &a.consts { Some(c) => J::s(c.iter().map(|b| format!("{:02x}", b)).collect::<String>()), None => J::Null });
        o.set("lin", match &a.lin { Some(l) => J::s(l.clone()), None => J::Null });
        o.set("taint", J::i(a.taint));
        o.set("taint_all", J::i(a.taint_all));
        o.set("whole", J::Bool(a.whole));
        o.set("tag", match &a.tag { Some(t) => J::s(t.clone()), None => J::Null });
        o
    }).collect()).to_string()
}

pub fn render_absorbed(v: &[Absorb]) -> String {
    v.iter()
        .map(|a| {
            let len = if a.len_lo == a.len_hi { format!("{}", a.len_lo) } else { format!("{}..{}", a.len_lo, if a.len_hi > (1 << 62) { "max".to_string() } else { a.len_hi.to_string() }) };
            let c = match &a.consts {
                Some(c) => format!("=0x{}", c.iter().map(|b| format!("{:02x}", b)).collect::<String>()),
                None => String::new(),
            };
            let l = match &a.lin {
                Some(l) => format!("{{{}}}", l),
                None => String::new(),
            };
            let t = if a.taint != 0 { format!("~t{}{}", a.taint, if a.taint_all == a.taint { "all" } else { "" }) } else { String::new() };
            format!("{}#{}{}{}{}", a.src, len, c, l, t)
        })
        .collect::<Vec<_>>()
        .join(" | ")
}
