// Control: block execution, branching with joins at post-dominators, loops, calls, scalar regions.
use super::exec::*;
use super::interp::*;
use super::ops;
use super::state::*;
use super::val::*;
use rustc_middle::mir::{self, BinOp, Operand, Rvalue, StatementKind, TerminatorKind};
use rustc_middle::ty::{self, Instance};
use std::rc::Rc;

const MAX_DEPTH: usize = 60;

impl<'tcx> Interp<'tcx> {
    fn tick(&mut self, n: u64) -> bool {
        self.steps += n;
        if self.steps > self.budget {
            self.over_budget = true;
            return false;
        }
        true
    }

    /// sign-mask idiom `x >> (bits-1)` on a value whose sign is open and that is an exact function
    /// of one atom: returns the operand so that the caller can fork on its sign
    fn sign_fork_candidate(&mut self, st: &State, s: &mir::Statement<'tcx>) -> Option<IntV> {
        if self.region_depth == 0 {
            return None;
        }
        let StatementKind::Assign(b) = &s.kind else { return None };
        let Rvalue::BinaryOp(BinOp::Shr, ops2) = &b.1 else { return None };
        let a = self.eval_operand(st, &ops2.0);
        let k = self.eval_operand(st, &ops2.1);
        let (Val::Int(a), Val::Int(k)) = (a, k) else { return None };
        if !a.ty.signed || k.is_const() != Some(a.ty.bits as i128 - 1) {
            return None;
        }
        if a.lo >= 0 || a.hi < 0 {
            return None;
        }
        a.lin.as_ref()?.single()?;
        Some(a)
    }

    pub fn exec_from(&mut self, mut bb: usize, mut idx: usize, stop: &[usize], mut st: State, mut first: bool) -> Outcomes {
        let bi = self.stack.last().unwrap().clone();
        let mut acc = Outcomes::new();
        loop {
            if !first && stop.contains(&bb) && idx == 0 {
                acc.add(Tgt::Block(bb), st);
                return acc;
            }
            if bi.cfg.is_header[bb] && idx == 0 && !first {
                let outs = self.exec_loop(bb, stop, st);
                // continue from loop exits that are not stop targets
                let mut cont: Vec<(usize, State)> = Vec::new();
                for (t, s) in outs.at {
                    match t {
                        Tgt::Block(b) if !stop.contains(&b) => cont.push((b, s)),
                        _ => acc.add(t, s),
                    }
                }
                if cont.is_empty() {
                    return acc;
                }
                while cont.len() > 1 {
                    let (b, s) = cont.pop().unwrap();
                    let o = self.exec_from(b, 0, stop, s, false);
                    acc.merge(o);
                }
                let (b, s) = cont.pop().unwrap();
                bb = b;
                st = s;
                idx = 0;
                continue;
            }
            first = false;
            let data = &bi.body.basic_blocks[cfg_bb(bb)];
            self.cur_bb = bb;
            if !self.tick((data.statements.len() - idx.min(data.statements.len())) as u64 + 1) {
                return acc;
            }
            // statements
            let mut forked = false;
            while idx < data.statements.len() {
                let s = &data.statements[idx];
                if let Some(a) = self.sign_fork_candidate(&st, s) {
                    // fork: a < 0 and a >= 0
                    for neg in [true, false] {
                        let mut s2 = st.clone();
                        let mut r = a.clone();
                        if neg {
                            r.hi = -1;
                        } else {
                            r.lo = 0;
                        }
                        let mut at = self.atoms(&s2);
                        if !ops::refine_atom(&mut at, &r) {
                            continue;
                        }
                        s2.atoms = at.itv;
                        self.exec_statement(&mut s2, s);
                        let o = self.exec_from(bb, idx + 1, stop, s2, true);
                        acc.merge(o);
                    }
                    forked = true;
                    break;
                }
                self.exec_statement(&mut st, s);
                idx += 1;
            }
            if forked {
                return acc;
            }
            idx = 0;
            let term = data.terminator.as_ref().unwrap();
            match &term.kind {
                TerminatorKind::Goto { target } => {
                    bb = target.as_usize();
                }
                TerminatorKind::Return => {
                    let fi = self.fi() as usize;
                    // a boolean result that is an undecided comparison is returned as two
                    // partitions, each refined by the comparison's outcome
                    if bi.ret_bool {
                        // (a secret-derived result stays one undecided value: a caller branching on it must see it is not a constant)
                        let undecided = matches!(&st.frames[fi].locals[0], Val::Int(i) if i.is_const().is_none() && !(self.taint_track && i.taint != 0));
                        let ver = st.frames[fi].vers[0];
                        let has_def = st.frames[fi].bdefs.iter().any(|e| e.0 == 0 && e.1 == ver);
                        if undecided && has_def {
                            for val in [true, false] {
                                let mut s2 = st.clone();
                                if self.assume_bool_local(&mut s2, 0, val, 0) {
                                    acc.add(Tgt::Return(val as u8), s2);
                                }
                            }
                            return acc;
                        }
                    }
                    let k = if bi.ret_bool {
                        match &st.frames[fi].locals[0] {
                            Val::Int(i) => match i.is_const() {
                                Some(0) => 0,
                                Some(_) => 1,
                                None => 2,
                            },
                            _ => 2,
                        }
                    } else if bi.scalar && self.region_depth > 0 {
                        // keep sign-fork partitions apart until the scalar region is left
                        self.ret_key = if self.ret_key >= 250 { 3 } else { self.ret_key + 1 };
                        self.ret_key.max(3)
                    } else {
                        2
                    };
                    acc.add(Tgt::Return(k), st);
                    return acc;
                }
                TerminatorKind::Unreachable | TerminatorKind::UnwindResume | TerminatorKind::UnwindTerminate(_) => {
                    return acc;
                }
                TerminatorKind::Drop { target, .. } => {
                    bb = target.as_usize();
                }
                TerminatorKind::FalseEdge { real_target, .. } | TerminatorKind::FalseUnwind { real_target, .. } => {
                    bb = real_target.as_usize();
                }
                TerminatorKind::Assert { cond, expected, msg, target, .. } => {
                    let v = self.eval_operand(&st, cond);
                    let kind = format!("{:?}", msg);
                    let kind = kind.split('(').next().unwrap_or("").to_string();
                    let key = format!("{}|bb{}|assert:{}", bi.name, bb, kind);
                    let ok = match &v {
                        Val::Int(i) => i.is_const() == Some(*expected as i128),
                        _ => false,
                    };
                    let wit = if ok { String::new() } else { self.assert_witness(&st, msg) };
                    self.site_visit(&key, ok, wit);
                    if self.taint_track {
                        if let Val::Int(i) = &v {
                            if i.taint != 0 && i.is_const().is_none() {
                                self.leak("branch", &format!("assert:{}", kind));
                            }
                        }
                    }
                    // continue on the passing edge
                    if let Operand::Copy(p) | Operand::Move(p) = cond {
                        if p.projection.is_empty() {
                            if !self.assume_bool_local(&mut st, p.local.as_u32(), *expected, 0) {
                                return acc;
                            }
                        }
                    } else if let Val::Int(i) = &v {
                        if i.is_const().map(|c| (c != 0) != *expected).unwrap_or(false) {
                            return acc;
                        }
                    }
                    bb = target.as_usize();
                }
                TerminatorKind::SwitchInt { discr, targets } => {
                    let v = self.eval_operand(&st, discr);
                    let vals: Vec<u128> = targets.iter().map(|(v, _)| v).collect();
                    let iv = match &v {
                        Val::Int(i) => i.clone(),
                        Val::Bot => return acc,
                        _ => {
                            let t = discr.ty(&bi.body, self.tcx);
                            IntV::top(ity_of(t).unwrap_or(ITy::ISIZE))
                        }
                    };
                    if self.taint_track && iv.taint != 0 && iv.is_const().is_none() {
                        self.leak("branch", "switch");
                    }
                    // feasible edges
                    let mut edges: Vec<(Option<u128>, usize)> = Vec::new();
                    for (val, tgt) in targets.iter() {
                        let w = iv.ty.wrap(val as i128);
                        if w >= iv.lo && w <= iv.hi {
                            edges.push((Some(val), tgt.as_usize()));
                        }
                    }
                    let n_in = (iv.hi - iv.lo).saturating_add(1);
                    let covered = edges.len() as i128;
                    if covered < n_in {
                        edges.push((None, targets.otherwise().as_usize()));
                    }
                    if edges.len() == 1 {
                        let (val, tgt) = edges[0];
                        if !self.assume_switch(&mut st, discr, val, &vals) {
                            return acc;
                        }
                        bb = tgt;
                        continue;
                    }
                    // undecided: explore each edge up to the immediate post-dominator, then join
                    let mut m = bi.cfg.ipdom[bb];
                    // a bare `return` block is not a join point: outcomes are merged (or kept as
                    // partitions for boolean results) at the Return target instead
                    if let Some(mb) = m {
                        // ... also when it is reached through a chain of storage-only `goto` blocks
                        let mut cur = mb;
                        let mut ret_like = false;
                        for _ in 0..16 {
                            let d = &bi.body.basic_blocks[cfg_bb(cur)];
                            let only_storage = d.statements.iter().all(|s| matches!(s.kind, StatementKind::StorageDead(_) | StatementKind::StorageLive(_) | StatementKind::Nop));
                            if !only_storage || stop.contains(&cur) {
                                break;
                            }
                            match d.terminator.as_ref().map(|t| &t.kind) {
                                Some(TerminatorKind::Return) => {
                                    ret_like = true;
                                    break;
                                }
                                Some(TerminatorKind::Goto { target }) => cur = target.as_usize(),
                                _ => break,
                            }
                        }
                        if ret_like {
                            m = None;
                        }
                    }
                    let mut sub: Vec<usize> = stop.to_vec();
                    if let Some(m) = m {
                        if !sub.contains(&m) {
                            sub.push(m);
                        }
                    }
                    let mut merged = Outcomes::new();
                    let mut at_m: Vec<(u8, State)> = Vec::new();
                    for (val, tgt) in edges {
                        let mut s2 = st.clone();
                        if !self.assume_switch(&mut s2, discr, val, &vals) {
                            continue;
                        }
                        let mut o = self.exec_from(tgt, 0, &sub, s2, false);
                        // in a bool-returning function, arms that have already decided the result
                        // differently are not joined at the post-dominator (kept as result partitions)
                        if bi.ret_bool {
                            if let Some(mm) = m {
                                if !stop.contains(&mm) {
                                    if let Some(sm) = o.take(Tgt::Block(mm)) {
                                        let fi = self.fi() as usize;
                                        let key: u8 = match &sm.frames[fi].locals[0] {
                                            Val::Int(i) => match i.is_const() {
                                                Some(0) => 0,
                                                Some(_) => 1,
                                                None => 2,
                                            },
                                            _ => 3,
                                        };
                                        match at_m.iter_mut().find(|e| e.0 == key) {
                                            Some(e) => e.1 = e.1.join(&sm),
                                            None => at_m.push((key, sm)),
                                        }
                                    }
                                }
                            }
                        }
                        merged.merge(o);
                        if self.over_budget {
                            return acc;
                        }
                    }
                    let cont = match m {
                        Some(m) if !stop.contains(&m) => {
                            if bi.ret_bool {
                                while at_m.len() > 1 {
                                    let (_, s) = at_m.pop().unwrap();
                                    let o = self.exec_from(m, 0, stop, s, false);
                                    acc.merge(o);
                                    if self.over_budget {
                                        return acc;
                                    }
                                }
                                at_m.pop().map(|(_, s)| (m, s))
                            } else {
                                merged.take(Tgt::Block(m)).map(|s| (m, s))
                            }
                        }
                        _ => None,
                    };
                    acc.merge(merged);
                    match cont {
                        Some((m, s)) => {
                            bb = m;
                            st = s;
                        }
                        None => return acc,
                    }
                }
                TerminatorKind::Call { func, args, destination, target, .. } => {
                    self.cur_call_bb = bb;
                    let track_key: Option<Rc<str>> = if self.track_ret.is_empty() { None } else { self.track_key(&st, func, args, false) };
                    let via_key: Option<Rc<str>> = if self.track_ret.is_empty() || track_key.is_some() || self.region_depth > 0 { None } else { self.track_key(&st, func, args, true) };
                    let parts = self.do_call(st, bb, func, args, destination);
                    self.cur_call_bb = bb;
                    let Some(target) = target else { return acc };
                    let mut parts: Vec<(State, Val)> = parts;
                    if parts.is_empty() {
                        return acc;
                    }
                    while parts.len() > 1 {
                        let (mut s, v) = parts.pop().unwrap();
                        self.assign_call_result(&mut s, destination, v);
                        self.note_call_result(&mut s, destination, &track_key);
                        self.adopt_ret_fact(&mut s, destination, &via_key);
                        let o = self.exec_from(target.as_usize(), 0, stop, s, false);
                        acc.merge(o);
                    }
                    let (mut s, v) = parts.pop().unwrap();
                    self.assign_call_result(&mut s, destination, v);
                    self.note_call_result(&mut s, destination, &track_key);
                    self.adopt_ret_fact(&mut s, destination, &via_key);
                    st = s;
                    bb = target.as_usize();
                }
                other => {
                    self.unsupported(&format!("terminator:{:?}", std::mem::discriminant(other)));
                    return acc;
                }
            }
        }
    }

    /// LIN tier: every integer leaf of a returned value becomes a named atom (its interval is kept)
    fn atomize_val(&mut self, st: &mut State, v: &Val, base: &str, idx: &mut usize) -> Val {
        match v {
            Val::Int(i) if i.ty.bits > 8 => {
                let a = self.fresh_atom(st, i.lo, i.hi, None);
                self.atom_names.insert(a, format!("{}[{}]", base, *idx));
                *idx += 1;
                let mut j = IntV::new(i.lo, i.hi, i.ty);
                j.taint = i.taint;
                j.lin = Some(Rc::new(Lin::atom(a)));
                Val::Int(j)
            }
            Val::Tuple(t) => Val::Tuple(Rc::new(t.iter().map(|x| self.atomize_val(st, x, base, idx)).collect())),
            Val::Enum(e) => Val::Enum(Rc::new(EnumV { variants: e.variants.iter().map(|(k, fs)| (*k, if *k == 0 { fs.iter().map(|x| self.atomize_val(st, x, base, idx)).collect() } else { fs.clone() })).collect() })),
            Val::Arr(a) if a.len <= 4096 && matches!(a.all_elems_join(), Val::Int(ref i) if i.ty.bits > 8) => {
                let mut r = ArrV::uniform(Val::Bot, a.len);
                for k in 0..a.len {
                    let e = self.atomize_val(st, a.get(k), base, idx);
                    r.over.insert(k, e);
                }
                Val::Arr(Rc::new(r))
            }
            Val::Arr(a) if a.len <= 64 => {
                let mut r = ArrV::uniform(Val::Bot, a.len);
                for k in 0..a.len {
                    let e = self.atomize_val(st, a.get(k), base, idx);
                    r.over.insert(k, e);
                }
                Val::Arr(Rc::new(r))
            }
            other => other.clone(),
        }
    }

    /// LIN tier: the linear forms of the i32 leaves of the array arguments (compact text: one leaf per line,
    /// `m|d|name:coef,name:coef,...` or `-` when there is no form)
    fn forms_of_args(&self, st: &State, args: &[Val]) -> std::collections::BTreeMap<String, String> {
        let mut leaves: Vec<IntV> = Vec::new();
        fn walk(v: &Val, out: &mut Vec<IntV>) {
            match v {
                Val::Int(i) if i.ty.bits > 8 => out.push(i.clone()),
                Val::Tuple(t) => t.iter().for_each(|x| walk(x, out)),
                Val::Arr(a) if a.len <= 4096 => (0..a.len).for_each(|k| walk(a.get(k), out)),
                _ => {}
            }
        }
        for a in args {
            if let Val::Ref(p) = a {
                let v = self.read_ptr(st, p);
                if matches!(v, Val::Arr(_)) {
                    walk(&v, &mut leaves);
                }
            } else if let Val::Int(i) = a {
                // scalar arguments (in a scalar region the caller's form is the definition of the argument atom)
                let mut j = i.clone();
                if let Some(l) = &i.lin {
                    if let Some((atom, 1, 0)) = l.single() {
                        if let Some(d) = self.atom_defs.get(atom as usize).and_then(|d| d.def.clone()) {
                            j.lin = Some(d);
                        }
                    }
                }
                leaves.push(j);
            }
        }
        let mut text = String::new();
        for i in leaves.iter() {
            match &i.lin {
                Some(l) => {
                    text.push_str(&format!("{}|{}|", l.m, l.d));
                    for (k, t) in l.terms.iter().enumerate() {
                        if k > 0 {
                            text.push(',');
                        }
                        text.push_str(&format!("{}:{}", self.atom_names.get(&t.0).cloned().unwrap_or_else(|| format!("a{}", t.0)), t.1));
                    }
                }
                None => text.push('-'),
            }
            text.push('\n');
        }
        let mut d = std::collections::BTreeMap::new();
        d.insert("leaves".to_string(), leaves.len().to_string());
        d.insert("forms".to_string(), text);
        d.insert("path".to_string(), self.call_path());
        d
    }

    /// LIN tier: how many i32 leaves of the array arguments are EXACTLY their own named atom, in order
    fn identity_of_args(&self, st: &State, args: &[Val]) -> std::collections::BTreeMap<String, String> {
        let mut leaves: Vec<IntV> = Vec::new();
        fn walk(v: &Val, out: &mut Vec<IntV>) {
            match v {
                Val::Int(i) if i.ty.bits > 8 => out.push(i.clone()),
                Val::Tuple(t) => t.iter().for_each(|x| walk(x, out)),
                Val::Arr(a) if a.len <= 4096 => (0..a.len).for_each(|k| walk(a.get(k), out)),
                _ => {}
            }
        }
        for a in args {
            if let Val::Ref(p) = a {
                let v = self.read_ptr(st, p);
                if matches!(v, Val::Arr(_)) {
                    walk(&v, &mut leaves);
                }
            }
        }
        let at = self.atoms(st);
        let mut names: Vec<String> = Vec::new();
        let mut bad: Vec<String> = Vec::new();
        for (n, i) in leaves.iter().enumerate() {
            let c = at.concretize(i).unwrap_or_else(|| i.clone());
            match c.lin.as_ref().and_then(|l| l.single()) {
                Some((a, 1, 0)) => names.push(self.atom_names.get(&a).cloned().unwrap_or_else(|| format!("a{}", a))),
                _ => {
                    names.push("?".into());
                    if bad.len() < 4 {
                        bad.push(format!("leaf {}: {} lin={}", n, c.short(), c.lin.as_ref().map(|l| self.render_lin(l)).unwrap_or_else(|| "none".into()).chars().take(160).collect::<String>()));
                    }
                }
            }
        }
        // compress the names: base#ord[idx] runs
        let mut runs: Vec<String> = Vec::new();
        let mut i = 0;
        while i < names.len() {
            let nm = &names[i];
            let (base, k0) = match nm.rfind('[') {
                Some(p) if nm.ends_with(']') => (nm[..p].to_string(), nm[p + 1..nm.len() - 1].parse::<usize>().ok()),
                _ => (nm.clone(), None),
            };
            let mut j = i + 1;
            if let Some(k0) = k0 {
                while j < names.len() && names[j] == format!("{}[{}]", base, k0 + (j - i)) {
                    j += 1;
                }
                runs.push(format!("{}[{}..{}]", base, k0, k0 + (j - i)));
            } else {
                while j < names.len() && names[j] == *nm {
                    j += 1;
                }
                runs.push(format!("{}x{}", nm, j - i));
            }
            i = j;
        }
        let mut d = std::collections::BTreeMap::new();
        d.insert("leaves".to_string(), leaves.len().to_string());
        d.insert("with_form".to_string(), leaves.iter().map(|i| if i.lin.is_some() { '1' } else { '0' }).collect::<String>().as_bytes().chunks(256).map(|c| c.iter().filter(|b| **b == b'1').count().to_string()).collect::<Vec<_>>().join(","));
        d.insert("exact".to_string(), names.iter().filter(|n| *n != "?").count().to_string());
        d.insert("runs".to_string(), runs.join(" "));
        d.insert("not_exact".to_string(), bad.join(" || "));
        d.insert("path".to_string(), self.call_path());
        d
    }

    /// fact key of a tracked call: `<caller>: <callee>(<argument places>)`
    /// key of the path fact of a call result; `via`: any function of the analysed crate (its result may carry the fact
    /// of a tracked call made inside it)
    fn track_key(&mut self, st: &State, func: &Operand<'tcx>, args: &[rustc_span::Spanned<Operand<'tcx>>], via: bool) -> Option<Rc<str>> {
        let bi = self.stack.last().unwrap().clone();
        let fty = func.ty(&bi.body, self.tcx);
        let ty::FnDef(def, _) = fty.kind() else { return None };
        if via && !def.is_local() {
            return None;
        }
        let name = crate::facts::def_name(self.tcx, *def);
        if !via && !self.track_ret.iter().any(|p| name.contains(p.as_str())) {
            return None;
        }
        let mut ds = Vec::new();
        for a in args {
            let v = self.eval_operand(st, &a.node);
            ds.push(match &v {
                Val::Ref(p) => match st.read(p) {
                    Val::Arr(a) => format!("{}#{}", self.describe_ptr(p), a.len),
                    _ => self.describe_ptr(p),
                },
                Val::Int(_) => "int".to_string(),
                Val::Opq(_) => "opaque".to_string(),
                _ => "value".to_string(),
            });
        }
        Some(Rc::from(format!("{}: {}({})", bi.short, name, ds.join(", ")).as_str()))
    }

    fn note_call_result(&mut self, st: &mut State, dest: &mir::Place<'tcx>, key: &Option<Rc<str>>) {
        let Some(key) = key else { return };
        if !dest.projection.is_empty() {
            return;
        }
        let fi = self.fi() as usize;
        let l = dest.local.as_u32();
        if let Val::Int(i) = &st.frames[fi].locals[l as usize] {
            let (lo, hi) = (i.lo, i.hi);
            let ver = st.frames[fi].vers[l as usize];
            st.frames[fi].callres.retain(|e| e.0 != l);
            st.frames[fi].callres.push((l, ver, key.clone()));
            self.fact_gen += 1;
            Rc::make_mut(&mut st.facts).insert(key.clone(), (lo, hi, self.fact_gen));
        }
    }

    /// a call returned a value that carries the path fact of a tracked call made inside the callee
    fn adopt_ret_fact(&mut self, st: &mut State, dest: &mir::Place<'tcx>, via: &Option<Rc<str>>) {
        if !st.facts.contains_key("$ret") {
            return;
        }
        let f = Rc::make_mut(&mut st.facts).remove("$ret");
        let (Some(f), Some(via), Some(inner)) = (f, via, self.ret_fact_key.clone()) else { return };
        if !dest.projection.is_empty() {
            return;
        }
        let fi = self.fi() as usize;
        let l = dest.local.as_u32();
        if let Val::Int(_) = &st.frames[fi].locals[l as usize] {
            let key: Rc<str> = Rc::from(format!("{} <= {}", via, inner).as_str());
            let ver = st.frames[fi].vers[l as usize];
            st.frames[fi].callres.retain(|e| e.0 != l);
            st.frames[fi].callres.push((l, ver, key.clone()));
            self.fact_gen += 1;
            Rc::make_mut(&mut st.facts).insert(key, (f.0, f.1, self.fact_gen));
        }
    }

    fn assign_call_result(&mut self, st: &mut State, dest: &mir::Place<'tcx>, mut v: Val) {
        if self.region_depth > 0 && dest.projection.is_empty() {
            if let Val::Int(i) = &v {
                if i.lo != i.hi && i.ty.bits > 1 && i.lin.as_ref().map(|l| l.single().is_none()).unwrap_or(true) {
                    let def = i.lin.clone();
                    let a = self.fresh_atom(st, i.lo, i.hi, def);
                    let mut j = i.clone();
                    j.lin = Some(Rc::new(Lin::atom(a)));
                    v = Val::Int(j);
                }
            }
        }
        self.write_place(st, dest, v);
    }

    fn assert_witness(&mut self, st: &State, msg: &mir::AssertKind<Operand<'tcx>>) -> String {
        use mir::AssertKind::*;
        let show = |me: &mut Self, o: &Operand<'tcx>| me.eval_operand(st, o).short();
        match msg {
            Overflow(op, a, b) => format!("{:?}({}, {})", op, show(self, a), show(self, b)),
            OverflowNeg(a) => format!("Neg({})", show(self, a)),
            DivisionByZero(a) | RemainderByZero(a) => format!("div/rem by {}", show(self, a)),
            BoundsCheck { len, index } => format!("index {} len {}", show(self, index), show(self, len)),
            other => format!("{:?}", std::mem::discriminant(other)),
        }
    }

    // ---- loops ----------------------------------------------------------------------------

    fn concrete_progress(&self, a: &State, b: &State) -> bool {
        let fi = self.fi() as usize;
        let (fa, fb) = (&a.frames[fi], &b.frames[fi]);
        for i in 0..fa.locals.len() {
            if concrete_differs(&fa.locals[i], &fb.locals[i]) {
                return true;
            }
        }
        false
    }

    fn exec_loop(&mut self, h: usize, stop: &[usize], st: State) -> Outcomes {
        let bi = self.stack.last().unwrap().clone();
        let mut stop_iter: Vec<usize> = stop.to_vec();
        if !stop_iter.contains(&h) {
            stop_iter.push(h);
        }
        for e in &bi.cfg.loop_exits[h] {
            if !stop_iter.contains(e) {
                stop_iter.push(*e);
            }
        }
        let mut acc = Outcomes::new();
        let mut cur = st;
        let mut abstract_rounds = 0u32;
        let mut abstract_mode = bi.cfg.primary_exit[h].is_none();
        let mut iters = 0u64;
        // peeled iterations are analysed one after the other (back-edge states joined with each other only)
        let mut peel_left = self.peel.iter().find(|(f, _)| bi.name.contains(f.as_str())).map(|x| x.1).unwrap_or(0);
        loop {
            iters += 1;
            if iters > 200_000 || self.over_budget {
                self.over_budget = true;
                return acc;
            }
            // a snapshot of the header state is only needed once the loop is analysed abstractly
            let snap = if abstract_mode { Some(cur.clone()) } else { None };
            let mut outs = self.exec_from(h, 0, &stop_iter, cur, true);
            let back = outs.take(Tgt::Block(h));
            let took_primary = match bi.cfg.primary_exit[h] {
                Some(p) => outs.at.iter().any(|(t, _)| *t == Tgt::Block(p)),
                None => true,
            };
            acc.merge(outs);
            let Some(back) = back else { break };
            // `loopcut=<fn>:N` (symbolic body analyses only): stop after N iterations; later iterations are NOT
            // explored, so nothing but the probes of the analysed iterations may be used from such a job
            if let Some(n) = self.loopcut.iter().find(|(f, _)| bi.name.contains(f.as_str())).map(|x| x.1) {
                if iters >= n as u64 {
                    break;
                }
            }
            match snap {
                None => {
                    // concrete unrolling: the loop's own continuation test was decided
                    if took_primary {
                        abstract_mode = true;
                    }
                    cur = back;
                }
                Some(prev) => {
                    if back.leq(&prev) {
                        break;
                    }
                    if peel_left > 0 {
                        peel_left -= 1;
                        cur = back;
                        continue;
                    }
                    if !took_primary && bi.cfg.primary_exit[h].is_some() && self.concrete_progress(&prev, &back) {
                        cur = back;
                        continue;
                    }
                    abstract_rounds += 1;
                    cur = if abstract_rounds > 3 { prev.widen(&back) } else { prev.join(&back) };
                }
            }
        }
        if self.trace_on && self.trace_pat == "LOOPS" {
            eprintln!("TRACE loop {} h=bb{} iters={} abstract_rounds={} primary={:?}", bi.name, h, iters, abstract_rounds, bi.cfg.primary_exit[h]);
        }
        acc
    }

    // ---- calls ----------------------------------------------------------------------------

    pub fn do_call(&mut self, st: State, bb: usize, func: &Operand<'tcx>, args: &[rustc_span::Spanned<Operand<'tcx>>], dest: &mir::Place<'tcx>) -> Vec<(State, Val)> {
        let bi = self.stack.last().unwrap().clone();
        let fty = func.ty(&bi.body, self.tcx);
        let ret_ty = dest.ty(&bi.body, self.tcx).ty;
        let argv: Vec<Val> = args.iter().map(|a| self.eval_operand(&st, &a.node)).collect();
        let (def, gargs) = match fty.kind() {
            ty::FnDef(def, gargs) => (*def, *gargs),
            _ => {
                self.unsupported("indirect-call");
                let v = self.top_of(ret_ty, 0);
                return vec![(st, v)];
            }
        };
        let name = crate::facts::def_name(self.tcx, def);
        if is_panic_fn(&name) {
            let key = format!("{}|bb{}|panic:{}", bi.name, bb, short_fn(&name));
            self.site_visit(&key, false, "reached".into());
            return vec![];
        }
        let inst = match Instance::try_resolve(self.tcx, self.env, def, gargs) {
            Ok(Some(i)) => Some(i),
            _ => None,
        };
        let arg_tys: Vec<ty::Ty<'tcx>> = args.iter().map(|a| a.node.ty(&bi.body, self.tcx)).collect();
        // models take precedence over bodies
        let mut st = st;
        if let Some(r) = self.model_call(&mut st, &name, def, gargs, inst, &argv, &arg_tys, ret_ty) {
            return r.into_iter().map(|(s, v)| (s.unwrap_or_else(|| st.clone()), v)).collect();
        }
        if let Some(inst) = inst {
            let is_local = inst.def_id().krate == rustc_span::def_id::LOCAL_CRATE;
            if is_local || self.tcx.is_closure_like(inst.def_id()) {
                match self.call_instance(st, inst, argv.clone()) {
                    Ok(r) => return r,
                    Err(s) => st = s,
                }
            }
        }
        // unmodelled: havoc everything reachable through &mut arguments, return top
        *self.unmodelled.entry(name.clone()).or_insert(0) += 1;
        for (v, t) in argv.iter().zip(arg_tys.iter()) {
            if let ty::Ref(_, inner, m) = t.kind() {
                if m.is_mut() {
                    self.havoc_through(&mut st, v, *inner);
                }
            }
        }
        let v = self.top_of(ret_ty, 0);
        vec![(st, v)]
    }

    pub fn havoc_through(&mut self, st: &mut State, v: &Val, pointee: ty::Ty<'tcx>) {
        match v {
            Val::Ref(p) => {
                let t = self.top_of(pointee, 0);
                self.write_ptr(st, p, t);
            }
            Val::Slice { base, start, len } => {
                if let ty::Slice(et) = pointee.kind() {
                    let t = self.top_of(*et, 0);
                    let lo = start.lo;
                    let hi = start.hi.saturating_add(len.hi).saturating_sub(1);
                    if lo <= hi {
                        let p = base.push(PElem::IndexRange(lo, hi));
                        self.write_ptr(st, &p, t);
                    }
                }
            }
            _ => {}
        }
    }

    /// inline a callee: returns the post-states (callee frame popped) with the returned value,
    /// partitioned by the boolean result for bool-returning functions
    pub fn call_instance(&mut self, mut st: State, inst: Instance<'tcx>, mut args: Vec<Val>) -> Result<Vec<(State, Val)>, State> {
        if self.stack.len() >= MAX_DEPTH {
            self.unsupported("max-call-depth");
            return Err(st);
        }
        let Some(bi) = self.body_of(inst) else { return Err(st) };
        *self.call_trace.entry(bi.name.clone()).or_insert(0) += 1;
        self.max_depth = self.max_depth.max(self.stack.len() + 1);
        // rust-call ABI: closures invoked through call_once/call_mut receive a tuple
        if let Some(sp) = bi.body.spread_arg {
            let _ = sp;
        }
        // memoisation of pure functions on the abstract values behind their arguments
        let mut pkey: Option<Vec<Val>> = None;
        let atomized = !self.atomize.is_empty() && self.atomize.iter().any(|p| bi.name.contains(p.as_str()));
        if bi.pure_args && self.region_depth == 0 && !atomized && !self.lin_tier {
            let mut key = Vec::with_capacity(args.len());
            let mut ok = true;
            for a in &args {
                match a {
                    Val::Ref(p) => key.push(self.read_ptr(&st, p)),
                    Val::Slice { base, start, len } => match (start.is_const(), len.is_const()) {
                        (Some(s0), Some(n)) if n <= 8192 => {
                            let mut arr = ArrV::uniform(Val::Bot, n as u64);
                            for i in 0..n {
                                arr.over.insert(i as u64, self.read_ptr(&st, &base.push(PElem::Index(s0 + i))));
                            }
                            arr.compress();
                            key.push(Val::Arr(Rc::new(arr)));
                        }
                        _ => ok = false,
                    },
                    Val::Int(i) => key.push(Val::Int(self.atoms(&st).concretize(i).unwrap_or_else(|| i.clone()).plain())),
                    other => key.push(other.clone()),
                }
            }
            if ok {
                if let Some(entries) = self.pmemo.get(&inst) {
                    for (k, rets, viol, prb, rw) in entries {
                        if *k == key {
                            self.pmemo_hits += 1;
                            let (rets, viol, mut prb, rw) = (rets.clone(), viol.clone(), prb.clone(), rw.clone());
                            self.replay_violations(&viol);
                            // the first probe slot records the call path the entry was made under: re-root replayed paths
                            if let Some(first) = prb.first().cloned() {
                                if first.what == "memo_base" {
                                    let old_base = first.data.get("path").cloned().unwrap_or_default();
                                    let new_base = self.call_path();
                                    prb.remove(0);
                                    if old_base != new_base {
                                        for p in prb.iter_mut() {
                                            if let Some(x) = p.data.get_mut("path") {
                                                if x.starts_with(old_base.as_str()) {
                                                    *x = format!("{}{}", new_base, &x[old_base.len()..]);
                                                }
                                            }
                                        }
                                    }
                                }
                            }
                            self.probes.extend(prb);
                            self.reject_witness.extend(rw);
                            return Ok(rets.into_iter().map(|v| (st.clone(), v)).collect());
                        }
                    }
                }
                pkey = Some(key);
            }
        }
        let probes_before = self.probes.len();
        let rw_before_memo = self.reject_witness.len();
        let pviol_before: std::collections::BTreeSet<String> =
            if pkey.is_some() { self.sites.iter().filter(|(_, s)| s.violated && s.roots.contains(&self.cur_root)).map(|(k, _)| k.clone()).collect() } else { Default::default() };
        let entering_region = bi.scalar && self.region_depth == 0;
        let mut memo_key = None;
        let atoms_before = st.atoms.len();
        if entering_region {
            // memoisation on the abstract integer arguments
            let mut key = Vec::new();
            let mut ok = true;
            for a in &args {
                match a {
                    Val::Int(i) => {
                        if i.lo != i.hi && i.lin.is_some() {
                            ok = false; // relational argument (named atom): results depend on more than the interval
                        }
                        key.push((i.lo, i.hi, i.taint))
                    }
                    _ => ok = false,
                }
            }
            if ok {
                let k = (inst, key);
                if let Some((vs, viol)) = self.memo.get(&k).cloned() {
                    self.memo_hits += 1;
                    self.replay_violations(&viol);
                    return Ok(vs.into_iter().map(|v| (st.clone(), v)).collect());
                }
                memo_key = Some(k);
            }
            self.region_start.push(atoms_before);
            for a in args.iter_mut() {
                if let Val::Int(i) = a {
                    if i.lo != i.hi && i.lin.as_ref().map(|l| l.single().is_none()).unwrap_or(true) {
                        // LIN tier: the caller's form stays attached as the definition of the argument atom
                        let def = if self.lin_tier { i.lin.clone() } else { None };
                        let id = self.fresh_atom(&mut st, i.lo, i.hi, def);
                        i.lin = Some(Rc::new(Lin::atom(id)));
                        i.affs.clear();
                    }
                }
            }
        }
        if bi.scalar {
            self.region_depth += 1;
        }
        let viol_before: std::collections::BTreeSet<String> =
            if memo_key.is_some() { self.sites.iter().filter(|(_, s)| s.violated).map(|(k, _)| k.clone()).collect() } else { Default::default() };
        let probe_args: Vec<String> = args.iter().map(|v| v.short()).collect();
        if !self.dump_args_pats.is_empty() && !bi.name.contains("{closure") && self.dump_args_pats.iter().any(|p| bi.name.contains(p.as_str())) {
            let cnt = self.dump_args_count.entry(bi.name.clone()).or_insert(0);
            *cnt += 1;
            if *cnt <= 24 {
                let d = self.forms_of_args(&st, &args);
                self.probes.push(Probe { what: "arg_forms".into(), inst: bi.name.clone(), ctx: String::new(), data: d });
            }
        }
        let ident_entry: std::collections::BTreeMap<String, String> =
            if !self.ident_pats.is_empty() && !bi.name.contains("{closure") && self.ident_pats.iter().any(|p| bi.name.contains(p.as_str())) { self.identity_of_args(&st, &args) } else { Default::default() };
        let mut fr = FrameSt::new(bi.body.local_decls.len());
        for (i, a) in args.into_iter().enumerate() {
            if i + 1 < fr.locals.len() && i < bi.body.arg_count {
                fr.locals[i + 1] = a;
            }
        }
        st.frames.push(fr);
        self.stack.push(bi.clone());
        let probe_this = !self.probe_pats.is_empty() && self.probe_pats.iter().any(|p| bi.name.contains(p.as_str()) && (p.contains("{closure") || !bi.name.contains("{closure")));
        let probe_facts: String = if probe_this { st.facts.iter().map(|(k, v)| format!("{} => [{},{}]", k, v.0, v.1)).collect::<Vec<_>>().join(" ;; ") } else { String::new() };
        let rw_before = self.reject_witness.len();
        self.scope_end.push(if probe_this { Some(Default::default()) } else { None });
        let saved_bb = (self.cur_bb, self.cur_call_bb);
        let t0 = std::time::Instant::now();
        let outs = self.exec_from(0, 0, &[], st, true);
        if !bi.scalar {
            let e = self.prof.entry(bi.name.clone()).or_insert((0, 0));
            e.0 += 1;
            e.1 += t0.elapsed().as_nanos();
        }
        self.cur_bb = saved_bb.0;
        self.cur_call_bb = saved_bb.1;
        let scope_end = self.scope_end.pop().flatten();
        self.stack.pop();
        if bi.scalar {
            self.region_depth -= 1;
        }
        let mut parts: Vec<(u8, State, Val)> = Vec::new();
        for (t, mut s) in outs.at {
            if let Tgt::Return(k) = t {
                let fr = s.frames.pop().unwrap();
                if !self.track_ret.is_empty() && !fr.callres.is_empty() && !bi.name.contains("{closure") {
                    // the returned value is a tracked call result (possibly through copies): its path fact travels
                    // with the result so that the caller can go on refining it
                    let depth = s.frames.len() as u32;
                    let (mut l, mut ver) = (0u32, fr.vers[0]);
                    let mut found: Option<Rc<str>> = None;
                    for _ in 0..4 {
                        if let Some(e) = fr.callres.iter().find(|e| e.0 == l && e.1 == ver) {
                            found = Some(e.2.clone());
                            break;
                        }
                        match fr.origin.iter().find(|e| e.0 == l && e.1 == ver) {
                            Some((_, _, ptr, bv)) if ptr.proj.is_empty() && ptr.frame == depth && fr.vers[ptr.local as usize] == *bv => {
                                l = ptr.local;
                                ver = *bv;
                            }
                            _ => break,
                        }
                    }
                    if let Some(key) = found {
                        if let Some(f) = s.facts.get(&key).cloned() {
                            Rc::make_mut(&mut s.facts).insert(Rc::from("$ret"), f);
                            self.ret_fact_key = Some(key);
                        }
                    }
                }
                let ret = fr.locals[0].clone();
                let ret = self.conc(&s, ret);
                parts.push((k, s, ret));
            }
        }
        let mut probe_cong = String::new();
        if probe_this && !self.moduli.is_empty() {
            for (_, s, v) in parts.iter() {
                if let Val::Int(i) = v {
                    if let Some(l) = &i.lin {
                        let at = self.atoms(s);
                        for q in self.moduli.iter() {
                            if let Some(e) = at.expand_mod(l, *q) {
                                probe_cong.push_str(&format!("{:?};", e));
                            } else {
                                probe_cong.push_str("none;");
                            }
                        }
                    } else {
                        probe_cong.push_str("nolin;");
                    }
                }
            }
        }
        if entering_region {
            let start = self.region_start.pop().unwrap();
            self.next_atom = start;
            for p in parts.iter_mut() {
                if self.lin_tier {
                    // re-express results over the caller's atoms (modulo q) before the region's atoms die
                    let at = self.atoms(&p.1);
                    p.2 = lift_region_result(&p.2, &at, start as AtomId);
                }
                p.2 = p.2.strip_atoms(start as AtomId);
                if p.1.atoms.len() > start {
                    Rc::make_mut(&mut p.1.atoms).truncate(start);
                }
            }
        }
        let mut out: Vec<(State, Val)> = Vec::new();
        if (bi.ret_bool || (self.region_depth > 0 && bi.scalar && parts.len() <= 4 && !entering_region)) && parts.len() > 1 {
            for (_, s, v) in parts {
                out.push((s, v));
            }
        } else if !parts.is_empty() {
            let mut it = parts.into_iter();
            let (_, mut s, mut v) = it.next().unwrap();
            for (_, s2, v2) in it {
                s = s.join(&s2);
                v = v.join(&v2);
            }
            out.push((s, v));
        }
        if !self.atomize.is_empty() && !bi.name.contains("{closure") && self.atomize.iter().any(|p| bi.name.contains(p.as_str())) {
            let ord = *self.atomize_count.entry(bi.short.clone()).or_insert(0);
            self.atomize_count.insert(bi.short.clone(), ord + 1);
            for o in out.iter_mut() {
                let mut idx = 0usize;
                let base = format!("{}#{}", bi.short, ord);
                let v = o.1.clone();
                o.1 = self.atomize_val(&mut o.0, &v, &base, &mut idx);
            }
        }
        if !self.ident_pats.is_empty() && !bi.name.contains("{closure") && self.ident_pats.iter().any(|p| bi.name.contains(p.as_str())) {
            let d = ident_entry.clone();
            self.probes.push(Probe { what: "identity".into(), inst: bi.name.clone(), ctx: String::new(), data: d });
        }
        if probe_this {
            let mut d = std::collections::BTreeMap::new();
            d.insert("args".to_string(), probe_args.join(" ; "));
            d.insert("facts".to_string(), probe_facts.clone());
            // path facts of every returned partition, with the returned value
            d.insert("ret_facts".to_string(), out.iter().map(|(s, v)| format!("{} <= {}", v.short(), s.facts.iter().map(|(k, v)| format!("{} => [{},{}]", k, v.0, v.1)).collect::<Vec<_>>().join(" ;; "))).collect::<Vec<_>>().join(" || "));
            let mut j: Option<Val> = None;
            for (_, v) in out.iter() {
                j = Some(match j {
                    Some(x) => x.join(v),
                    None => v.clone(),
                });
            }
            d.insert("ret".to_string(), j.map(|v| super::jobs::val_summary(&v, 0).to_string()).unwrap_or_else(|| "null".into()));
            let mut w: Option<Val> = None;
            for x in self.reject_witness[rw_before..].iter() {
                w = Some(match w {
                    Some(y) => y.join(x),
                    None => x.clone(),
                });
            }
            d.insert("reject_witness".to_string(), w.map(|v| super::jobs::val_summary(&v, 0).to_string()).unwrap_or_else(|| "null".into()));
            d.insert("path".to_string(), self.call_path());
            if let Some(m) = &scope_end {
                // final intervals of the named integer variables (join over every end of their storage)
                let mut parts: Vec<String> = Vec::new();
                for vdi in &bi.body.var_debug_info {
                    if let rustc_middle::mir::VarDebugInfoContents::Place(pl) = &vdi.value {
                        if pl.projection.is_empty() {
                            if let Some(e) = m.get(&pl.local.as_u32()) {
                                parts.push(format!("{}=[{},{}]", vdi.name, e.0, e.1));
                            }
                        }
                    }
                }
                d.insert("scope_end".to_string(), parts.join(";"));
            }
            d.insert("ret_cong".to_string(), probe_cong.clone());
            d.insert("first_atom".to_string(), atoms_before.to_string());
            self.probes.push(Probe { what: "ret".into(), inst: bi.name.clone(), ctx: String::new(), data: d });
        }
        let carries_fact = out.iter().any(|o| o.0.facts.contains_key("$ret"));
        if let Some(k) = pkey {
            if !out.is_empty() && !self.over_budget && !carries_fact {
                let viol = self.violations_since(&pviol_before, &bi.short);
                let base_path = self.call_path();
                let e = self.pmemo.entry(inst).or_default();
                if e.len() < 64 {
                    let mut prb: Vec<Probe> = self.probes[probes_before.min(self.probes.len())..].iter().take(4096).cloned().collect();
                    let mut base = std::collections::BTreeMap::new();
                    base.insert("path".to_string(), base_path);
                    prb.insert(0, Probe { what: "memo_base".into(), inst: String::new(), ctx: String::new(), data: base });
                    let rw: Vec<Val> = self.reject_witness[rw_before_memo.min(self.reject_witness.len())..].to_vec();
                    e.push((k, out.iter().map(|o| o.1.strip_tags()).collect(), viol, prb, rw));
                }
            }
        }
        if let Some(k) = memo_key {
            if !out.is_empty() && !self.over_budget && !carries_fact {
                let all = self.violations_since(&viol_before, &bi.short);
                self.memo.insert(k, (out.iter().map(|o| o.1.strip_tags()).collect(), all));
            }
        }
        Ok(out)
    }
}

/// LIN tier: a scalar result whose form mentions atoms of the region being left is expanded through
/// the atom definitions (argument atoms are defined by the caller's forms) modulo each modulus of interest
fn lift_region_result(v: &Val, at: &super::ops::Atoms, start: AtomId) -> Val {
    match v {
        Val::Int(i) => {
            let Some(l) = &i.lin else { return v.clone() };
            if !l.terms.iter().any(|t| t.0 >= start) {
                return v.clone();
            }
            for q in at.moduli.iter() {
                if let Some(e) = at.expand_mod(l, *q) {
                    if e.terms.iter().all(|t| t.0 < start) {
                        let mut j = i.clone();
                        j.lin = Some(Rc::new(e));
                        j.affs.retain(|a| a.atom < start);
                        return Val::Int(j);
                    }
                }
            }
            v.clone()
        }
        Val::Tuple(t) => Val::Tuple(Rc::new(t.iter().map(|x| lift_region_result(x, at, start)).collect())),
        other => other.clone(),
    }
}

fn concrete_differs(a: &Val, b: &Val) -> bool {
    match (a, b) {
        (Val::Int(x), Val::Int(y)) => x.lo == x.hi && y.lo == y.hi && x.lo != y.lo,
        (Val::Tuple(x), Val::Tuple(y)) if x.len() == y.len() && x.len() <= 4 => x.iter().zip(y.iter()).any(|(p, q)| concrete_differs(p, q)),
        (Val::Opq(Opaque::Iter(x)), Val::Opq(Opaque::Iter(y))) => x != y,
        _ => false,
    }
}
