// Per-body control-flow facts: successors without unwind edges, immediate post-dominators,
// natural loops (headers, bodies, exit targets).
use rustc_middle::mir::{self, BasicBlock, TerminatorKind};
use std::collections::BTreeSet;

pub struct Cfg {
    pub n: usize,
    pub succ: Vec<Vec<usize>>,
    pub pred: Vec<Vec<usize>>,
    /// immediate post-dominator; None = virtual exit
    pub ipdom: Vec<Option<usize>>,
    pub is_header: Vec<bool>,
    /// for each header: blocks of the natural loop
    pub loop_body: Vec<BTreeSet<usize>>,
    /// for each header: targets outside the loop reached from inside
    pub loop_exits: Vec<Vec<usize>>,
    /// for each header: the exit target of the loop's own continuation test (for / while), if any
    pub primary_exit: Vec<Option<usize>>,
}

pub fn successors<'tcx>(term: &mir::Terminator<'tcx>) -> Vec<usize> {
    match &term.kind {
        TerminatorKind::Goto { target } => vec![target.as_usize()],
        TerminatorKind::SwitchInt { targets, .. } => {
            let mut v: Vec<usize> = targets.all_targets().iter().map(|b| b.as_usize()).collect();
            v.dedup();
            v
        }
        TerminatorKind::Return | TerminatorKind::Unreachable | TerminatorKind::UnwindResume | TerminatorKind::UnwindTerminate(_) => vec![],
        TerminatorKind::Drop { target, .. } => vec![target.as_usize()],
        TerminatorKind::Call { target, .. } => target.iter().map(|b| b.as_usize()).collect(),
        TerminatorKind::Assert { target, .. } => vec![target.as_usize()],
        TerminatorKind::FalseEdge { real_target, .. } => vec![real_target.as_usize()],
        TerminatorKind::FalseUnwind { real_target, .. } => vec![real_target.as_usize()],
        _ => vec![],
    }
}

pub fn build<'tcx>(body: &mir::Body<'tcx>) -> Cfg {
    let n = body.basic_blocks.len();
    let mut succ = vec![Vec::new(); n];
    let mut pred = vec![Vec::new(); n];
    for (bb, data) in body.basic_blocks.iter_enumerated() {
        if let Some(t) = &data.terminator {
            for s in successors(t) {
                if !succ[bb.as_usize()].contains(&s) {
                    succ[bb.as_usize()].push(s);
                    pred[s].push(bb.as_usize());
                }
            }
        }
    }
    // reachable from entry
    let mut reach = vec![false; n];
    let mut st = vec![0usize];
    while let Some(b) = st.pop() {
        if reach[b] {
            continue;
        }
        reach[b] = true;
        for &s in &succ[b] {
            st.push(s);
        }
    }
    // dominators (iterative, on reachable blocks, reverse post-order)
    let rpo = rpo_order(n, &succ, 0);
    let dom = idoms(n, &rpo, &pred, 0, &reach);
    // post-dominators on the reversed graph with virtual exit n
    let mut rsucc = vec![Vec::new(); n + 1]; // edges of reversed graph: from exit-side
    let mut rpred = vec![Vec::new(); n + 1];
    for b in 0..n {
        if !reach[b] {
            continue;
        }
        if succ[b].is_empty() {
            rsucc[n].push(b);
            rpred[b].push(n);
        }
        for &s in &succ[b] {
            rsucc[s].push(b);
            rpred[b].push(s);
        }
    }
    // blocks in infinite loops (no path to exit) : connect loop headers to exit lazily - not needed for this crate
    let mut rreach = vec![false; n + 1];
    let mut st = vec![n];
    while let Some(b) = st.pop() {
        if rreach[b] {
            continue;
        }
        rreach[b] = true;
        for &s in &rsucc[b] {
            st.push(s);
        }
    }
    let rrpo = rpo_order(n + 1, &rsucc, n);
    let pdom = idoms(n + 1, &rrpo, &rpred, n, &rreach);
    let mut ipdom = vec![None; n];
    for b in 0..n {
        if let Some(p) = pdom[b] {
            if p != n {
                ipdom[b] = Some(p);
            }
        }
    }
    // natural loops
    let mut is_header = vec![false; n];
    let mut loop_body = vec![BTreeSet::new(); n];
    for u in 0..n {
        if !reach[u] {
            continue;
        }
        for &h in &succ[u] {
            if dominates(&dom, h, u) {
                is_header[h] = true;
                // body: h plus all nodes that reach u without passing h
                let body_set = &mut loop_body[h];
                body_set.insert(h);
                let mut st = vec![u];
                while let Some(x) = st.pop() {
                    if body_set.insert(x) {
                        for &p in &pred[x] {
                            if reach[p] {
                                st.push(p);
                            }
                        }
                    }
                }
            }
        }
    }
    let mut loop_exits = vec![Vec::new(); n];
    for h in 0..n {
        if !is_header[h] {
            continue;
        }
        let mut ex = BTreeSet::new();
        for &b in &loop_body[h] {
            for &s in &succ[b] {
                if !loop_body[h].contains(&s) {
                    ex.insert(s);
                }
            }
        }
        loop_exits[h] = ex.into_iter().collect();
    }
    let mut primary_exit = vec![None; n];
    for h in 0..n {
        if !is_header[h] {
            continue;
        }
        // follow single-successor blocks from the header to the first branch
        let mut b = h;
        let mut steps = 0;
        while succ[b].len() == 1 && steps < 8 && loop_body[h].contains(&succ[b][0]) {
            b = succ[b][0];
            steps += 1;
            if b == h {
                break;
            }
        }
        if succ[b].len() >= 2 {
            let outs: Vec<usize> = succ[b]
                .iter()
                .cloned()
                .filter(|t| !loop_body[h].contains(t))
                .filter(|t| !matches!(body.basic_blocks[bb(*t)].terminator.as_ref().map(|x| &x.kind), Some(TerminatorKind::Unreachable)))
                .collect();
            if outs.len() == 1 {
                primary_exit[h] = Some(outs[0]);
            }
        }
    }
    Cfg { n, succ, pred, ipdom, is_header, loop_body, loop_exits, primary_exit }
}

fn rpo_order(n: usize, succ: &Vec<Vec<usize>>, entry: usize) -> Vec<usize> {
    let mut seen = vec![false; n];
    let mut post = Vec::new();
    // iterative DFS
    let mut stack: Vec<(usize, usize)> = vec![(entry, 0)];
    seen[entry] = true;
    while let Some((b, i)) = stack.pop() {
        if i < succ[b].len() {
            stack.push((b, i + 1));
            let s = succ[b][i];
            if !seen[s] {
                seen[s] = true;
                stack.push((s, 0));
            }
        } else {
            post.push(b);
        }
    }
    post.reverse();
    post
}

fn idoms(n: usize, rpo: &Vec<usize>, pred: &Vec<Vec<usize>>, entry: usize, reach: &Vec<bool>) -> Vec<Option<usize>> {
    let mut order = vec![usize::MAX; n];
    for (i, b) in rpo.iter().enumerate() {
        order[*b] = i;
    }
    let mut idom: Vec<Option<usize>> = vec![None; n];
    idom[entry] = Some(entry);
    let mut changed = true;
    while changed {
        changed = false;
        for &b in rpo.iter() {
            if b == entry {
                continue;
            }
            let mut new: Option<usize> = None;
            for &p in &pred[b] {
                if !reach[p] || idom[p].is_none() {
                    continue;
                }
                new = Some(match new {
                    None => p,
                    Some(q) => intersect(&idom, &order, p, q),
                });
            }
            if new.is_some() && idom[b] != new {
                idom[b] = new;
                changed = true;
            }
        }
    }
    idom[entry] = None;
    idom
}

fn intersect(idom: &Vec<Option<usize>>, order: &Vec<usize>, a: usize, b: usize) -> usize {
    let (mut a, mut b) = (a, b);
    while a != b {
        while order[a] > order[b] {
            a = idom[a].unwrap();
        }
        while order[b] > order[a] {
            b = idom[b].unwrap();
        }
    }
    a
}

fn dominates(idom: &Vec<Option<usize>>, a: usize, b: usize) -> bool {
    let mut x = b;
    loop {
        if x == a {
            return true;
        }
        match idom[x] {
            Some(p) if p != x => x = p,
            _ => return false,
        }
    }
}

pub fn bb(i: usize) -> BasicBlock {
    BasicBlock::from_usize(i)
}
