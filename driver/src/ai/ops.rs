// Integer transfer functions on IntV and comparison refinement.
use super::val::*;
use std::rc::Rc;

pub struct Atoms {
    /// current interval of each atom (part of the abstract state)
    pub itv: Rc<Vec<(i128, i128)>>,
    pub defs: Rc<Vec<AtomDef>>,
    /// odd moduli of interest (q): exact divisions by 2^k keep a congruence modulo these
    pub moduli: Rc<Vec<i128>>,
}

#[derive(Clone, Debug)]
pub struct AtomDef {
    /// relation of this atom to older atoms (exact when m == 0, else a congruence)
    pub def: Option<Rc<Lin>>,
}

fn sat_add(a: i128, b: i128) -> i128 {
    a.saturating_add(b)
}
fn sat_mul(a: i128, b: i128) -> i128 {
    a.saturating_mul(b)
}

pub fn floor_div(a: i128, b: i128) -> i128 {
    let q = a / b;
    if (a % b != 0) && ((a < 0) != (b < 0)) {
        q - 1
    } else {
        q
    }
}
pub fn ceil_div(a: i128, b: i128) -> i128 {
    -floor_div(-a, b)
}

fn f2i_floor(x: f64) -> i128 {
    if x.is_nan() {
        return i128::MIN;
    }
    let f = x.floor();
    if f <= -1.0e38 {
        i128::MIN
    } else if f >= 1.0e38 {
        i128::MAX
    } else {
        f as i128
    }
}
fn f2i_ceil(x: f64) -> i128 {
    if x.is_nan() {
        return i128::MAX;
    }
    let f = x.ceil();
    if f <= -1.0e38 {
        i128::MIN
    } else if f >= 1.0e38 {
        i128::MAX
    } else {
        f as i128
    }
}

impl Atoms {
    pub fn get(&self, a: AtomId) -> (i128, i128) {
        self.itv.get(a as usize).cloned().unwrap_or((i128::MIN, i128::MAX))
    }
    /// interval of an exact linear form under the current atom intervals
    pub fn eval_lin(&self, l: &Lin) -> Option<(i128, i128)> {
        if l.m != 0 {
            return None;
        }
        let mut lo = l.d;
        let mut hi = l.d;
        for (a, c) in &l.terms {
            let (alo, ahi) = self.get(*a);
            if alo == i128::MIN || ahi == i128::MAX {
                return None;
            }
            let x = c.checked_mul(alo)?;
            let y = c.checked_mul(ahi)?;
            lo = lo.checked_add(x.min(y))?;
            hi = hi.checked_add(x.max(y))?;
        }
        Some((lo, hi))
    }
    /// moduli of the congruence definitions reachable from the atoms of a form
    fn moduli(&self, l: &Lin) -> Vec<i128> {
        let mut out = Vec::new();
        if l.m > 1 {
            out.push(l.m);
        }
        let mut todo: Vec<AtomId> = l.terms.iter().map(|t| t.0).collect();
        let mut n = 0;
        while let Some(a) = todo.pop() {
            n += 1;
            if n > 24 {
                break;
            }
            if let Some(d) = self.defs.get(a as usize).and_then(|d| d.def.clone()) {
                if d.m > 1 && !out.contains(&d.m) {
                    out.push(d.m);
                }
                for t in &d.terms {
                    todo.push(t.0);
                }
            }
        }
        out
    }

    /// expand atoms with definitions so that a form is expressed over the oldest atoms, modulo m
    pub fn expand_mod(&self, l: &Lin, m: i128) -> Option<Lin> {
        let mut cur = l.modulo(m)?;
        for _ in 0..32 {
            let mut changed = false;
            let mm = cur.m;
            let mut terms: Vec<(AtomId, i128)> = Vec::with_capacity(cur.terms.len());
            let mut d = cur.d;
            for (a, c) in cur.terms.iter() {
                let def = self.defs.get(*a as usize).and_then(|d| d.def.clone());
                match def {
                    Some(df) if df.m == 0 || df.m % m == 0 => {
                        changed = true;
                        let cc = if mm > 0 { c.rem_euclid(mm) } else { *c };
                        for (a2, c2) in df.terms.iter() {
                            let c2r = if mm > 0 { c2.rem_euclid(mm) } else { *c2 };
                            let p = cc.checked_mul(c2r)?;
                            terms.push((*a2, if mm > 0 { p.rem_euclid(mm) } else { p }));
                        }
                        let dr = if mm > 0 { df.d.rem_euclid(mm) } else { df.d };
                        let p = cc.checked_mul(dr)?;
                        d = d.checked_add(if mm > 0 { p.rem_euclid(mm) } else { p })?;
                    }
                    _ => terms.push((*a, *c)),
                }
            }
            cur = Lin::from_parts(mm, d, terms)?.modulo(m)?;
            if !changed {
                break;
            }
        }
        Some(cur)
    }

    /// (m, d) when the value is known to be congruent to the constant d modulo m
    pub fn residue(&self, l: &Lin) -> Option<(i128, i128)> {
        if l.m > 1 && l.terms.is_empty() {
            return Some((l.m, l.d.rem_euclid(l.m)));
        }
        // terms over atoms without definitions cannot cancel
        if !l.terms.iter().any(|t| self.defs.get(t.0 as usize).map(|d| d.def.is_some()).unwrap_or(false)) {
            return None;
        }
        for m in self.moduli(l) {
            if let Some(e) = self.expand_mod(l, m) {
                if e.terms.is_empty() && e.m > 1 {
                    return Some((e.m, e.d.rem_euclid(e.m)));
                }
            }
        }
        None
    }

    /// a congruence  v = F (mod m)  becomes the equality v = F + k*m when the interval of v and the
    /// range of F (coefficients taken in (-m/2, m/2]) leave a single k
    pub fn exactify(&self, v: &IntV) -> Option<Lin> {
        let l = v.lin.as_ref()?;
        if l.m <= 1 || l.terms.is_empty() || v.lo == i128::MIN || v.hi == i128::MAX {
            return None;
        }
        let m = l.m;
        let half = m / 2;
        let center = |c: i128| -> i128 { let r = c.rem_euclid(m); if r > half { r - m } else { r } };
        let terms: Vec<(AtomId, i128)> = l.terms.iter().map(|t| (t.0, center(t.1))).collect();
        let f = Lin { m: 0, d: center(l.d), terms };
        let (flo, fhi) = self.eval_lin(&f)?;
        // v = F + k*m  =>  k in [ceil((v.lo - fhi)/m), floor((v.hi - flo)/m)]
        let klo = ceil_div(v.lo.checked_sub(fhi)?, m);
        let khi = floor_div(v.hi.checked_sub(flo)?, m);
        if klo != khi {
            return None;
        }
        Some(Lin { m: 0, d: f.d.checked_add(klo.checked_mul(m)?)?, terms: f.terms })
    }

    /// tighten a value's interval with everything known about it; None if empty (infeasible)
    pub fn concretize(&self, v: &IntV) -> Option<IntV> {
        let mut r = v.clone();
        if !self.moduli.is_empty() {
            if let Some(ex) = self.exactify(v) {
                r.lin = Some(Rc::new(ex));
            }
        }
        if let Some(l) = &r.lin.clone() {
            if let Some((lo, hi)) = self.eval_lin(l) {
                r.lo = r.lo.max(lo);
                r.hi = r.hi.min(hi);
            }
            if let Some((m, d)) = self.residue(l) {
                // constant residue class: tighten to it
                if r.lo > i128::MIN / 2 && r.hi < i128::MAX / 2 {
                    let lo2 = r.lo + (d - r.lo).rem_euclid(m);
                    let hi2 = r.hi - (r.hi - d).rem_euclid(m);
                    r.lo = lo2;
                    r.hi = hi2;
                }
            }
        }
        for a in v.affs.iter() {
            let (alo, ahi) = self.get(a.atom);
            if alo != i128::MIN && ahi != i128::MAX {
                let (fl, fh) = a.eval(alo, ahi);
                // the value is an integer inside [fl, fh]
                r.lo = r.lo.max(f2i_ceil(fl));
                r.hi = r.hi.min(f2i_floor(fh));
            }
        }
        if r.lo > r.hi {
            return None;
        }
        if r.lo == r.hi && r.lin.is_none() {
            r.lin = Some(Rc::new(Lin::konst(r.lo)));
        }
        Some(r)
    }
}

/// all affine views of a value: the explicit ones plus the identity over its own atom
fn affs_of(v: &IntV) -> Vec<Aff> {
    let mut out = v.affs.clone();
    if let Some(l) = &v.lin {
        if let Some((a, c, d)) = l.single() {
            if c.abs() < (1 << 52) && d.abs() < (1 << 52) && !out.iter().any(|x| x.atom == a) {
                out.push(Aff { atom: a, a_lo: c as f64, a_hi: c as f64, b_lo: d as f64, b_hi: d as f64 });
            }
        }
    }
    out
}

fn keep_newest(mut v: Vec<Aff>) -> Vec<Aff> {
    v.sort_by_key(|a| std::cmp::Reverse(a.atom));
    v.truncate(3);
    v
}

/// combine the affine views of two operands atom by atom; an operand without a view on an atom
/// contributes its plain interval
fn affs_bin(a: &IntV, b: &IntV, sub: bool) -> Vec<Aff> {
    let (xa, xb) = (affs_of(a), affs_of(b));
    let mut atoms: Vec<AtomId> = xa.iter().map(|x| x.atom).chain(xb.iter().map(|x| x.atom)).collect();
    atoms.sort();
    atoms.dedup();
    let mut out = Vec::new();
    for at in atoms {
        let pa = xa.iter().find(|x| x.atom == at);
        let pb = xb.iter().find(|x| x.atom == at);
        let r = match (pa, pb) {
            (Some(x), Some(y)) => {
                if sub {
                    x.sub(y)
                } else {
                    x.add(y)
                }
            }
            (Some(x), None) => Some(if sub { x.add_itv(b.hi.saturating_neg(), b.lo.saturating_neg()) } else { x.add_itv(b.lo, b.hi) }),
            (None, Some(y)) => Some(if sub { y.neg().add_itv(a.lo, a.hi) } else { y.add_itv(a.lo, a.hi) }),
            _ => None,
        };
        if let Some(r) = r {
            out.push(r);
        }
    }
    keep_newest(out)
}

fn lin_of(v: &IntV) -> Option<Rc<Lin>> {
    if let Some(l) = &v.lin {
        return Some(l.clone());
    }
    if v.lo == v.hi {
        return Some(Rc::new(Lin::konst(v.lo)));
    }
    None
}

/// result of an arithmetic op before wrapping: exact mathematical interval + relational parts
struct Exact {
    lo: i128,
    hi: i128,
    lin: Option<Rc<Lin>>,
    affs: Vec<Aff>,
}

fn finish(e: Exact, ty: ITy, taint: u8, wrapping: bool, at: &Atoms) -> (IntV, bool) {
    // returns (value, may_overflow)
    let mut v = IntV { lo: e.lo, hi: e.hi, ty, lin: e.lin, affs: e.affs, taint, canon: None };
    if let Some(c) = at.concretize(&v) {
        v = c;
    } else {
        // contradictory relational info: keep plain interval
        v.lin = None;
        v.affs.clear();
    }
    let overflow = v.lo < ty.min() || v.hi > ty.max();
    if overflow {
        if wrapping {
            // value wraps: mathematical value changes by a multiple of 2^bits
            let span_ok = v.hi.checked_sub(v.lo).map(|s| s < (1i128 << ty.bits.min(126))).unwrap_or(false);
            let lin = v.lin.as_ref().and_then(|l| if ty.bits < 127 { l.modulo(1i128 << ty.bits).map(Rc::new) } else { None });
            if span_ok && ty.bits < 127 {
                let wl = ty.wrap(v.lo);
                let wh = ty.wrap(v.hi);
                if wl <= wh && (v.hi - v.lo) == (wh - wl) {
                    return (IntV { lo: wl, hi: wh, ty, lin, affs: Vec::new(), taint, canon: None }, true);
                }
            }
            let mut t = IntV::top(ty);
            t.lin = lin;
            t.taint = taint;
            if let Some(c) = at.concretize(&t) {
                t = c;
            }
            return (t, true);
        } else {
            // checked op: the continuing path is the one without overflow
            v.lo = v.lo.max(ty.min());
            v.hi = v.hi.min(ty.max());
            if v.lo > v.hi {
                // always overflows; continuing path is infeasible, keep a harmless value
                v = IntV::top(ty);
                v.taint = taint;
            }
            return (v, true);
        }
    }
    (v, false)
}

#[derive(Clone, Copy, Debug, PartialEq, Eq)]
pub enum Arith {
    Add,
    Sub,
    Mul,
}

/// wrapping=false: checked arithmetic (result clipped to the no-overflow path, flag says whether
/// overflow is possible); wrapping=true: two's complement wrap.
pub fn arith(op: Arith, a: &IntV, b: &IntV, ty: ITy, wrapping: bool, at: &Atoms) -> (IntV, bool) {
    let taint = a.taint | b.taint;
    let e = match op {
        Arith::Add => Exact {
            lo: sat_add(a.lo, b.lo),
            hi: sat_add(a.hi, b.hi),
            lin: match (lin_of(a), lin_of(b)) {
                (Some(x), Some(y)) => x.add(&y).map(Rc::new),
                _ => None,
            },
            affs: affs_bin(a, b, false),
        },
        Arith::Sub => Exact {
            lo: sat_add(a.lo, b.hi.saturating_neg()),
            hi: sat_add(a.hi, b.lo.saturating_neg()),
            lin: match (lin_of(a), lin_of(b)) {
                (Some(x), Some(y)) => x.sub(&y).map(Rc::new),
                _ => None,
            },
            affs: affs_bin(a, b, true),
        },
        Arith::Mul => {
            let c = [sat_mul(a.lo, b.lo), sat_mul(a.lo, b.hi), sat_mul(a.hi, b.lo), sat_mul(a.hi, b.hi)];
            let (ka, kb) = (a.is_const(), b.is_const());
            let lin = match (ka, kb) {
                (_, Some(k)) => lin_of(a).and_then(|l| l.scale(k)).map(Rc::new),
                (Some(k), _) => lin_of(b).and_then(|l| l.scale(k)).map(Rc::new),
                _ => None,
            };
            // product with anything whose value is a multiple of m stays a multiple of m
            let lin = lin.or_else(|| {
                for (x, _y) in [(a, b), (b, a)] {
                    if let Some(l) = &x.lin {
                        if l.m > 1 && l.terms.is_empty() && l.d == 0 {
                            return Some(l.clone());
                        }
                    }
                }
                None
            });
            let affs = match (ka, kb) {
                (_, Some(k)) => affs_of(a).iter().map(|x| x.scale(k)).collect(),
                (Some(k), _) => affs_of(b).iter().map(|x| x.scale(k)).collect(),
                _ => Vec::new(),
            };
            Exact { lo: *c.iter().min().unwrap(), hi: *c.iter().max().unwrap(), lin, affs }
        }
    };
    finish(e, ty, taint, wrapping, at)
}

pub fn neg(a: &IntV, ty: ITy, at: &Atoms) -> (IntV, bool) {
    let e = Exact {
        lo: a.hi.saturating_neg(),
        hi: a.lo.saturating_neg(),
        lin: lin_of(a).and_then(|l| l.neg()).map(Rc::new),
        affs: affs_of(a).iter().map(|x| x.neg()).collect(),
    };
    finish(e, ty, a.taint, false, at)
}

pub fn shl(a: &IntV, b: &IntV, ty: ITy, at: &Atoms) -> IntV {
    let taint = a.taint | b.taint;
    let bits = ty.bits as i128;
    if b.lo < 0 || b.hi >= bits || b.hi > 100 {
        return IntV::top(ty).with_taint(taint);
    }
    let c = [a.lo.checked_shl(b.lo as u32), a.lo.checked_shl(b.hi as u32), a.hi.checked_shl(b.lo as u32), a.hi.checked_shl(b.hi as u32)];
    if c.iter().any(|x| x.is_none()) || a.lo.abs() > (1i128 << 100) || a.hi.abs() > (1i128 << 100) {
        return IntV::top(ty).with_taint(taint);
    }
    let c: Vec<i128> = c.iter().map(|x| x.unwrap()).collect();
    let k = b.is_const();
    let e = Exact {
        lo: *c.iter().min().unwrap(),
        hi: *c.iter().max().unwrap(),
        lin: k.and_then(|k| lin_of(a).and_then(|l| l.scale(1i128 << k))).map(Rc::new),
        affs: match k {
            Some(k) => affs_of(a).iter().map(|x| x.scale(1i128 << k)).collect(),
            None => Vec::new(),
        },
    };
    finish(e, ty, taint, true, at).0
}

/// x = low + high with low in [0, 2^m) (terms whose coefficient is not a multiple of 2^m, evaluated
/// under the atom intervals) and high a multiple of 2^m (every coefficient divisible): then
/// x & (2^m - 1) = low and x >> m = high / 2^m exactly.  This is what follows bit fields
/// assembled from bytes whose bits are boolean atoms.
pub fn split_pow2(l: &Lin, m: u32, at: &Atoms) -> Option<(Lin, Lin)> {
    if l.m != 0 || m >= 100 {
        return None;
    }
    let p = 1i128 << m;
    let mut low = Lin { m: 0, d: l.d.rem_euclid(p), terms: Vec::new() };
    let mut high = Lin { m: 0, d: (l.d - low.d) / p, terms: Vec::new() };
    for (a, c) in l.terms.iter() {
        if c % p == 0 {
            high.terms.push((*a, c / p));
        } else {
            low.terms.push((*a, *c));
        }
    }
    let (lo, hi) = at.eval_lin(&low)?;
    if lo < 0 || hi >= p {
        return None;
    }
    Some((low, high))
}

fn exact_from(l: Lin, ty: ITy, taint: u8, at: &Atoms) -> Option<IntV> {
    let (lo, hi) = at.eval_lin(&l)?;
    if lo < ty.min() || hi > ty.max() {
        return None;
    }
    let mut v = IntV::new(lo, hi, ty);
    v.taint = taint;
    v.lin = Some(Rc::new(l));
    Some(v)
}

/// low `m` bits of a value as an exact form (None when the split rule does not apply)
pub fn low_bits_exact(a: &IntV, m: u32, ty: ITy, at: &Atoms) -> Option<IntV> {
    let l = a.lin.as_ref()?;
    let (low, _) = split_pow2(l, m, at)?;
    exact_from(low, ty, a.taint, at)
}

pub fn shr(a: &IntV, b: &IntV, ty: ITy, at: &Atoms) -> IntV {
    if let (Some(k), Some(l)) = (b.is_const(), a.lin.as_ref()) {
        if k > 0 && k < 100 && l.m == 0 && !l.terms.is_empty() {
            if let Some((_, high)) = split_pow2(l, k as u32, at) {
                if let Some(v) = exact_from(high, ty, a.taint | b.taint, at) {
                    return v;
                }
            }
        }
    }
    let taint = a.taint | b.taint;
    let bits = ty.bits as i128;
    if b.lo < 0 || b.hi >= bits.max(8) || b.hi > 126 {
        return IntV::top(ty).with_taint(taint);
    }
    // tighten a with its own congruence first (exact division case)
    let a = at.concretize(a).unwrap_or_else(|| a.clone());
    let c = [a.lo >> (b.lo as u32), a.lo >> (b.hi as u32), a.hi >> (b.lo as u32), a.hi >> (b.hi as u32)];
    let k = b.is_const();
    let mut affs: Vec<Aff> = match k {
        Some(k) => affs_of(&a).iter().map(|x| x.shr(k as u32)).collect(),
        None => Vec::new(),
    };
    let mut lin = None;
    if let (Some(k), Some((rm, rd))) = (k, a.lin.as_ref().and_then(|l| at.residue(l))) {
        // exact division: value is a known multiple of 2^k'
        if rd == 0 && rm % (1i128 << k) == 0 {
            // result congruent 0 mod (m / 2^k) -- keep if non-trivial
            let m2 = rm >> k;
            if m2 > 1 {
                lin = Some(Rc::new(Lin { m: m2, d: 0, terms: vec![] }));
            }
            // exact: affine form without the floor slack
            let s = (2.0f64).powi(k as i32);
            affs = affs_of(&a).iter().map(|x| Aff { atom: x.atom, a_lo: x.a_lo / s, a_hi: x.a_hi / s, b_lo: x.b_lo / s, b_hi: x.b_hi / s }).collect();
        }
    }
    if let (Some(k), Some(l)) = (k, &a.lin) {
        let p = 1i128 << k;
        if l.m == 0 && l.d % p == 0 && l.terms.iter().all(|t| t.1 % p == 0) && !l.terms.is_empty() {
            // every term is a multiple of 2^k: the division is exact and stays linear
            lin = Some(Rc::new(Lin { m: 0, d: l.d / p, terms: l.terms.iter().map(|t| (t.0, t.1 / p)).collect() }));
            let s = (2.0f64).powi(k as i32);
            affs = affs_of(&a).iter().map(|x| Aff { atom: x.atom, a_lo: x.a_lo / s, a_hi: x.a_hi / s, b_lo: x.b_lo / s, b_hi: x.b_hi / s }).collect();
        } else if let Some((rm, rd)) = at.residue(l) {
            // exact division of a multiple of 2^k: modulo an odd q, res = value * (2^k)^-1
            if rd == 0 && rm % p == 0 {
                for q in at.moduli.iter() {
                    if let Some(e) = at.expand_mod(l, *q) {
                        let inv = mod_inv(p.rem_euclid(*q), *q);
                        if let Some(sc) = e.scale(inv).and_then(|x| x.modulo(*q)) {
                            lin = Some(Rc::new(sc));
                        }
                    }
                }
            }
        }
    }
    let e = Exact { lo: *c.iter().min().unwrap(), hi: *c.iter().max().unwrap(), lin, affs };
    finish(e, ty, taint, true, at).0
}

pub fn mod_inv(a: i128, m: i128) -> i128 {
    // extended Euclid; m odd prime in practice
    let (mut r0, mut r1) = (m, a.rem_euclid(m));
    let (mut t0, mut t1) = (0i128, 1i128);
    while r1 != 0 {
        let q = r0 / r1;
        let r2 = r0 - q * r1;
        r0 = r1;
        r1 = r2;
        let t2 = t0 - q * t1;
        t0 = t1;
        t1 = t2;
    }
    t0.rem_euclid(m)
}

fn bitlen(x: i128) -> u32 {
    128 - x.leading_zeros()
}

pub fn bitand(a: &IntV, b: &IntV, ty: ITy) -> IntV {
    let taint = a.taint | b.taint;
    if let (Some(x), Some(y)) = (a.is_const(), b.is_const()) {
        return IntV::konst(x & y, ty).with_taint(taint);
    }
    for (x, y) in [(a, b), (b, a)] {
        if x.is_const() == Some(-1) {
            let mut r = y.clone();
            r.taint = taint;
            return r;
        }
        if x.is_const() == Some(0) {
            return IntV::konst(0, ty).with_taint(taint);
        }
    }
    // x & (2^k - 1) with x inside one aligned block of size 2^k:  x - block_base (exact)
    for (x, y) in [(a, b), (b, a)] {
        if let Some(m) = y.is_const() {
            if m > 0 && (m & (m + 1)) == 0 && x.lo >= 0 {
                let p = m + 1;
                if x.lo / p == x.hi / p {
                    let base = (x.lo / p) * p;
                    let mut r = x.clone();
                    r.lo -= base;
                    r.hi -= base;
                    r.ty = ty;
                    r.taint = taint;
                    r.canon = None;
                    r.affs.clear();
                    r.lin = match &x.lin {
                        Some(l) => l.add(&Lin::konst(-base)).map(Rc::new),
                        None => None,
                    };
                    return r;
                }
            }
        }
    }
    // sign mask & K  ->  {0, K}
    for (x, y) in [(a, b), (b, a)] {
        if x.lo >= -1 && x.hi <= 0 {
            if let Some(k) = y.is_const() {
                if k > 0 {
                    let mut r = IntV::new(0, k, ty).with_taint(taint);
                    r.lin = Some(Rc::new(Lin { m: k, d: 0, terms: vec![] }));
                    return r;
                }
            }
            // mask & y  in {0, y}
            let mut r = IntV::new(y.lo.min(0), y.hi.max(0), ty).with_taint(taint);
            r.lin = None;
            return r;
        }
    }
    if a.lo >= 0 && b.lo >= 0 {
        return IntV::new(0, a.hi.min(b.hi), ty).with_taint(taint);
    }
    if a.lo >= 0 {
        return IntV::new(0, a.hi, ty).with_taint(taint);
    }
    if b.lo >= 0 {
        return IntV::new(0, b.hi, ty).with_taint(taint);
    }
    IntV::top(ty).with_taint(taint)
}

/// x & (2^m - 1) through the low/high split of an exact form
pub fn bitand_split(a: &IntV, b: &IntV, ty: ITy, at: &Atoms) -> Option<IntV> {
    for (x, y) in [(a, b), (b, a)] {
        if let Some(mask) = y.is_const() {
            if mask > 0 && (mask & (mask + 1)) == 0 && x.is_const().is_none() {
                let m = bitlen(mask);
                if let Some(mut v) = low_bits_exact(x, m, ty, at) {
                    v.taint |= y.taint;
                    return Some(v);
                }
            }
        }
    }
    None
}

pub fn bitor(a: &IntV, b: &IntV, ty: ITy) -> IntV {
    let taint = a.taint | b.taint;
    if let (Some(x), Some(y)) = (a.is_const(), b.is_const()) {
        return IntV::konst(ty.wrap(x | y), ty).with_taint(taint);
    }
    for (x, y) in [(a, b), (b, a)] {
        if x.is_const() == Some(0) {
            let mut r = y.clone();
            r.taint = taint;
            return r;
        }
    }
    if a.lo >= 0 && b.lo >= 0 {
        let n = bitlen(a.hi.max(b.hi));
        let hi = if n >= 127 { i128::MAX } else { (1i128 << n) - 1 };
        return IntV::new(a.lo.max(b.lo), hi.min(sat_add(a.hi, b.hi)).min(ty.max()), ty).with_taint(taint);
    }
    IntV::top(ty).with_taint(taint)
}

/// `a | b` where b is a known multiple of 2^k and 0 <= a < 2^k is the sum a + b
pub fn bitor_disjoint(a: &IntV, b: &IntV, ty: ITy, at: &Atoms) -> Option<IntV> {
    for (x, y) in [(a, b), (b, a)] {
        if x.lo < 0 || y.lo < 0 {
            continue;
        }
        let k = bitlen(x.hi);
        if k >= 100 {
            continue;
        }
        let p = 1i128 << k;
        let mult = match &y.lin {
            Some(l) if l.m == 0 => l.d % p == 0 && l.terms.iter().all(|t| t.1 % p == 0),
            _ => y.lo == y.hi && y.lo % p == 0,
        };
        if mult {
            return Some(arith(Arith::Add, x, y, ty, true, at).0);
        }
    }
    None
}

pub fn bitxor(a: &IntV, b: &IntV, ty: ITy) -> IntV {
    let taint = a.taint | b.taint;
    if let (Some(x), Some(y)) = (a.is_const(), b.is_const()) {
        return IntV::konst(ty.wrap(x ^ y), ty).with_taint(taint);
    }
    for (x, y) in [(a, b), (b, a)] {
        if x.is_const() == Some(0) {
            let mut r = y.clone();
            r.taint = taint;
            return r;
        }
    }
    if let (Some(x), Some(y)) = (&a.lin, &b.lin) {
        if x == y && x.m == 0 {
            return IntV::konst(0, ty).with_taint(taint);
        }
    }
    if a.lo >= 0 && b.lo >= 0 {
        let n = bitlen(a.hi.max(b.hi));
        let hi = if n >= 127 { i128::MAX } else { (1i128 << n) - 1 };
        return IntV::new(0, hi.min(ty.max()), ty).with_taint(taint);
    }
    IntV::top(ty).with_taint(taint)
}

pub fn not(a: &IntV, ty: ITy) -> IntV {
    if ty.bits == 1 {
        return IntV { lo: 1 - a.hi, hi: 1 - a.lo, ty, lin: None, affs: Vec::new(), taint: a.taint, canon: None };
    }
    if ty.signed {
        IntV::new(-1 - a.hi, -1 - a.lo, ty).with_taint(a.taint)
    } else {
        IntV::new(ty.max() - a.hi, ty.max() - a.lo, ty).with_taint(a.taint)
    }
}

/// truncating division (Rust `/`), divisor known non-zero on the continuing path
pub fn div(a: &IntV, b: &IntV, ty: ITy) -> IntV {
    let taint = a.taint | b.taint;
    let mut cands = Vec::new();
    let mut bs = Vec::new();
    if b.lo <= -1 {
        bs.push(b.lo);
        bs.push(b.hi.min(-1));
    }
    if b.hi >= 1 {
        bs.push(b.lo.max(1));
        bs.push(b.hi);
    }
    if bs.is_empty() {
        return IntV::top(ty).with_taint(taint);
    }
    for x in [a.lo, a.hi] {
        for y in &bs {
            if let Some(q) = x.checked_div(*y) {
                cands.push(q);
            }
        }
    }
    if a.lo <= 0 && a.hi >= 0 {
        cands.push(0);
    }
    let lo = *cands.iter().min().unwrap();
    let hi = *cands.iter().max().unwrap();
    IntV::new(lo.max(ty.min()), hi.min(ty.max()), ty).with_taint(taint)
}

pub fn rem(a: &IntV, b: &IntV, ty: ITy) -> IntV {
    let taint = a.taint | b.taint;
    if let (Some(x), Some(y)) = (a.is_const(), b.is_const()) {
        if y != 0 {
            return IntV::konst(x % y, ty).with_taint(taint);
        }
    }
    let m = b.lo.abs().max(b.hi.abs());
    if m == 0 {
        return IntV::top(ty).with_taint(taint);
    }
    let lo = if a.lo < 0 { -(m - 1) } else { 0 };
    let hi = if a.hi > 0 { m - 1 } else { 0 };
    IntV::new(lo.max(a.lo.min(0)), hi.min(a.hi.max(0)), ty).with_taint(taint)
}

pub fn cast(a: &IntV, to: ITy, at: &Atoms) -> IntV {
    if to.bits == 1 {
        // int -> bool is not a MIR cast; treat as top
        return IntV::any_bool().with_taint(a.taint);
    }
    let a = at.concretize(a).unwrap_or_else(|| a.clone());
    if a.lo >= to.min() && a.hi <= to.max() {
        let mut r = a.clone();
        r.ty = to;
        r.canon = None;
        return r;
    }
    if !to.signed && to.bits < 100 {
        if let Some(v) = low_bits_exact(&a, to.bits as u32, to, at) {
            return v;
        }
    }
    let lin = a.lin.as_ref().and_then(|l| if to.bits < 127 { l.modulo(1i128 << to.bits).map(Rc::new) } else { None });
    if let Some(c) = a.is_const() {
        return IntV::konst(to.wrap(c), to).with_taint(a.taint);
    }
    if to.bits < 127 && a.hi.checked_sub(a.lo).map(|s| s < (1i128 << to.bits)).unwrap_or(false) {
        let wl = to.wrap(a.lo);
        let wh = to.wrap(a.hi);
        if wl <= wh && (a.hi - a.lo) == (wh - wl) {
            return IntV { lo: wl, hi: wh, ty: to, lin, affs: Vec::new(), taint: a.taint, canon: None };
        }
    }
    let mut t = IntV::top(to);
    t.lin = lin;
    t.taint = a.taint;
    at.concretize(&t).unwrap_or(t)
}

#[derive(Clone, Copy, Debug, PartialEq, Eq)]
pub enum Cmp {
    Eq,
    Ne,
    Lt,
    Le,
    Gt,
    Ge,
}

impl Cmp {
    pub fn negate(self) -> Cmp {
        match self {
            Cmp::Eq => Cmp::Ne,
            Cmp::Ne => Cmp::Eq,
            Cmp::Lt => Cmp::Ge,
            Cmp::Le => Cmp::Gt,
            Cmp::Gt => Cmp::Le,
            Cmp::Ge => Cmp::Lt,
        }
    }
    pub fn swap(self) -> Cmp {
        match self {
            Cmp::Eq => Cmp::Eq,
            Cmp::Ne => Cmp::Ne,
            Cmp::Lt => Cmp::Gt,
            Cmp::Le => Cmp::Ge,
            Cmp::Gt => Cmp::Lt,
            Cmp::Ge => Cmp::Le,
        }
    }
}

/// abstract comparison: Some(true/false) when decided
pub fn compare(op: Cmp, a: &IntV, b: &IntV) -> Option<bool> {
    // identical exact forms / canonical representatives are equal
    let same = (a.lin.is_some() && a.lin == b.lin && a.lin.as_ref().unwrap().m == 0) || (a.canon.is_some() && a.canon == b.canon);
    match op {
        Cmp::Eq => {
            if same || (a.lo == a.hi && b.lo == b.hi && a.lo == b.lo) {
                Some(true)
            } else if a.hi < b.lo || b.hi < a.lo {
                Some(false)
            } else {
                None
            }
        }
        Cmp::Ne => compare(Cmp::Eq, a, b).map(|x| !x),
        Cmp::Lt => {
            if same {
                Some(false)
            } else if a.hi < b.lo {
                Some(true)
            } else if a.lo >= b.hi {
                Some(false)
            } else {
                None
            }
        }
        Cmp::Le => {
            if same || a.hi <= b.lo {
                Some(true)
            } else if a.lo > b.hi {
                Some(false)
            } else {
                None
            }
        }
        Cmp::Gt => compare(Cmp::Lt, b, a),
        Cmp::Ge => compare(Cmp::Le, b, a),
    }
}

/// refine (a, b) under the assumption `a op b`; None when infeasible
pub fn refine(op: Cmp, a: &IntV, b: &IntV) -> Option<(IntV, IntV)> {
    let (mut x, mut y) = (a.clone(), b.clone());
    match op {
        Cmp::Eq => {
            let lo = a.lo.max(b.lo);
            let hi = a.hi.min(b.hi);
            if lo > hi {
                return None;
            }
            x.lo = lo;
            x.hi = hi;
            y.lo = lo;
            y.hi = hi;
        }
        Cmp::Ne => {
            if let Some(c) = b.is_const() {
                if x.lo == c {
                    x.lo += 1;
                }
                if x.hi == c {
                    x.hi -= 1;
                }
            }
            if let Some(c) = a.is_const() {
                if y.lo == c {
                    y.lo += 1;
                }
                if y.hi == c {
                    y.hi -= 1;
                }
            }
            if x.lo > x.hi || y.lo > y.hi {
                return None;
            }
        }
        Cmp::Lt => {
            x.hi = x.hi.min(b.hi.saturating_sub(1));
            y.lo = y.lo.max(a.lo.saturating_add(1));
            if x.lo > x.hi || y.lo > y.hi {
                return None;
            }
        }
        Cmp::Le => {
            x.hi = x.hi.min(b.hi);
            y.lo = y.lo.max(a.lo);
            if x.lo > x.hi || y.lo > y.hi {
                return None;
            }
        }
        Cmp::Gt => {
            let (yy, xx) = refine(Cmp::Lt, b, a)?;
            return Some((xx, yy));
        }
        Cmp::Ge => {
            let (yy, xx) = refine(Cmp::Le, b, a)?;
            return Some((xx, yy));
        }
    }
    Some((x, y))
}

/// push an interval constraint on a value with an exact single-atom form back onto the atom
pub fn refine_atom(at: &mut Atoms, v: &IntV) -> bool {
    // v.lo..v.hi is the refined interval of c*A + d
    if let Some(l) = &v.lin {
        if let Some((a, c, d)) = l.single() {
            let (alo, ahi) = at.get(a);
            let (nlo, nhi) = if c > 0 {
                (ceil_div(v.lo.saturating_sub(d), c), floor_div(v.hi.saturating_sub(d), c))
            } else {
                (ceil_div(v.hi.saturating_sub(d), c), floor_div(v.lo.saturating_sub(d), c))
            };
            let lo = alo.max(nlo);
            let hi = ahi.min(nhi);
            if lo > hi {
                return false;
            }
            if (a as usize) < at.itv.len() {
                if at.itv[a as usize] != (lo, hi) {
                    Rc::make_mut(&mut at.itv)[a as usize] = (lo, hi);
                }
            }
        }
    }
    true
}
