// Abstract machine state: frames of locals + atom intervals; reads and writes through pointers.
use super::ops::Cmp;
use super::val::*;
use std::rc::Rc;

#[derive(Clone, Debug, PartialEq)]
pub enum Src {
    Local(u32, u32), // local, version at definition time
    Konst(IntV),
}

#[derive(Clone, Debug, PartialEq)]
pub enum BoolDef {
    /// fa / fb: path fact (key, generation) the operand was the tracked call result of; ia / ib: operand
    /// intervals when the comparison was evaluated
    Cmp { op: Cmp, a: Src, b: Src, fa: Option<(Rc<str>, u64)>, fb: Option<(Rc<str>, u64)>, ia: (i128, i128), ib: (i128, i128) },
    Not(u32, u32),
}

#[derive(Clone, Debug)]
pub struct FrameSt {
    pub locals: Vec<Val>,
    pub vers: Vec<u32>,
    /// bool local -> how it was computed (valid while the version matches)
    pub bdefs: Vec<(u32, u32, BoolDef)>, // (local, version of that local, def)
    /// temp local -> place it was copied from: (local, version, ptr, version of ptr base local)
    pub origin: Vec<(u32, u32, Ptr, u32)>,
    /// discriminant temp -> enum place
    pub discr: Vec<(u32, u32, Ptr)>,
    /// local holding the tracked result of a call: (local, version, fact key)
    pub callres: Vec<(u32, u32, Rc<str>)>,
}

impl FrameSt {
    pub fn new(n: usize) -> FrameSt {
        FrameSt { locals: vec![Val::Bot; n], vers: vec![0; n], bdefs: Vec::new(), origin: Vec::new(), discr: Vec::new(), callres: Vec::new() }
    }
    pub fn bump(&mut self, l: u32) {
        self.vers[l as usize] = self.vers[l as usize].wrapping_add(1);
        let l2 = l;
        self.bdefs.retain(|e| e.0 != l2);
        self.origin.retain(|e| e.0 != l2);
        self.discr.retain(|e| e.0 != l2);
        self.callres.retain(|e| e.0 != l2);
    }
}

#[derive(Clone, Debug)]
pub struct State {
    pub frames: Vec<FrameSt>,
    pub atoms: Rc<Vec<(i128, i128)>>,
    /// number of generator requests made on this path (u32::MAX = paths with different counts merged)
    pub rng_count: u32,
    /// path facts: interval of the latest tracked call result per key, refined by the branch conditions
    /// taken since (absent key = nothing known)
    pub facts: Rc<std::collections::BTreeMap<Rc<str>, (i128, i128, u64)>>,
}

impl State {
    pub fn empty() -> State {
        State { frames: Vec::new(), atoms: Rc::new(Vec::new()), rng_count: 0, facts: Rc::new(Default::default()) }
    }
    fn join_facts(&self, o: &State) -> Rc<std::collections::BTreeMap<Rc<str>, (i128, i128, u64)>> {
        if Rc::ptr_eq(&self.facts, &o.facts) || self.facts == o.facts {
            return self.facts.clone();
        }
        let mut m = std::collections::BTreeMap::new();
        for (k, a) in self.facts.iter() {
            if let Some(b) = o.facts.get(k) {
                m.insert(k.clone(), (a.0.min(b.0), a.1.max(b.1), if a.2 == b.2 { a.2 } else { 0 }));
            }
        }
        Rc::new(m)
    }
    pub fn join(&self, o: &State) -> State {
        let mut frames = Vec::with_capacity(self.frames.len());
        for (a, b) in self.frames.iter().zip(o.frames.iter()) {
            let mut f = FrameSt::new(a.locals.len());
            for i in 0..a.locals.len() {
                f.locals[i] = a.locals[i].join(&b.locals[i]);
                f.vers[i] = a.vers[i].max(b.vers[i]);
                if a.vers[i] != b.vers[i] {
                    f.vers[i] = f.vers[i].wrapping_add(1);
                }
            }
            f.bdefs = a.bdefs.iter().filter(|e| b.bdefs.contains(e) && a.vers[e.0 as usize] == b.vers[e.0 as usize]).cloned().collect();
            f.origin = a.origin.iter().filter(|e| b.origin.contains(e) && a.vers[e.0 as usize] == b.vers[e.0 as usize]).cloned().collect();
            f.discr = a.discr.iter().filter(|e| b.discr.contains(e) && a.vers[e.0 as usize] == b.vers[e.0 as usize]).cloned().collect();
            f.callres = a.callres.iter().filter(|e| b.callres.contains(e) && a.vers[e.0 as usize] == b.vers[e.0 as usize]).cloned().collect();
            frames.push(f);
        }
        let n = self.atoms.len().min(o.atoms.len());
        // an atom that exists in one state only is not referred to by any value of the other state:
        // its interval is taken from the state that has it
        let atoms = if Rc::ptr_eq(&self.atoms, &o.atoms) {
            self.atoms.clone()
        } else {
            let mut v: Vec<(i128, i128)> = (0..n).map(|i| (self.atoms[i].0.min(o.atoms[i].0), self.atoms[i].1.max(o.atoms[i].1))).collect();
            let longer = if self.atoms.len() >= o.atoms.len() { &self.atoms } else { &o.atoms };
            v.extend(longer[n..].iter().cloned());
            Rc::new(v)
        };
        State { frames, atoms, rng_count: if self.rng_count == o.rng_count { self.rng_count } else { u32::MAX }, facts: self.join_facts(o) }
    }

    pub fn widen(&self, new: &State) -> State {
        let mut j = self.join(new);
        for (fi, f) in j.frames.iter_mut().enumerate() {
            for i in 0..f.locals.len() {
                f.locals[i] = self.frames[fi].locals[i].widen(&new.frames[fi].locals[i]);
            }
        }
        {
            let ja = Rc::make_mut(&mut j.atoms);
            for i in 0..ja.len().min(self.atoms.len()) {
                let (a, b) = (self.atoms[i], ja[i]);
                ja[i] = (if b.0 < a.0 { i128::MIN } else { b.0 }, if b.1 > a.1 { i128::MAX } else { b.1 });
            }
        }
        if !self.facts.is_empty() {
            let mut m = std::collections::BTreeMap::new();
            for (k, b) in j.facts.iter() {
                if let Some(a) = self.facts.get(k) {
                    m.insert(k.clone(), (if b.0 < a.0 { i128::MIN } else { b.0 }, if b.1 > a.1 { i128::MAX } else { b.1 }, b.2));
                }
            }
            j.facts = Rc::new(m);
        }
        j
    }

    pub fn leq(&self, o: &State) -> bool {
        if self.rng_count != o.rng_count && o.rng_count != u32::MAX {
            return false;
        }
        for (a, b) in self.frames.iter().zip(o.frames.iter()) {
            for i in 0..a.locals.len() {
                if !a.locals[i].leq(&b.locals[i]) {
                    return false;
                }
            }
        }
        for (k, b) in o.facts.iter() {
            match self.facts.get(k) {
                Some(a) if a.0 >= b.0 && a.1 <= b.1 => {}
                _ => return false,
            }
        }
        let n = self.atoms.len().min(o.atoms.len());
        (0..n).all(|i| self.atoms[i].0 >= o.atoms[i].0 && self.atoms[i].1 <= o.atoms[i].1)
    }

    // ---- memory access -------------------------------------------------------------------

    pub fn read(&self, p: &Ptr) -> Val {
        let f = match self.frames.get(p.frame as usize) {
            Some(f) => f,
            None => return Val::Top,
        };
        let mut cur: Val = match f.locals.get(p.local as usize) {
            Some(v) => v.clone(),
            None => return Val::Top,
        };
        let mut i = 0;
        while i < p.proj.len() {
            let e = &p.proj[i];
            cur = match (&cur, e) {
                (Val::Top, _) => return Val::Top,
                (Val::Bot, _) => return Val::Bot,
                (Val::Tuple(t), PElem::Field(k)) => t.get(*k as usize).cloned().unwrap_or(Val::Top),
                (Val::Arr(a), PElem::Index(k)) => {
                    if *k < 0 || (*k as u64) >= a.len {
                        Val::Bot
                    } else {
                        a.get(*k as u64).clone()
                    }
                }
                (Val::Arr(a), PElem::IndexRange(lo, hi)) => {
                    let lo = (*lo).max(0) as u64;
                    let hi = (*hi).max(0).min(u64::MAX as i128 / 2) as u64;
                    a.get_range(lo, hi)
                }
                (Val::Enum(en), PElem::Downcast(v)) => {
                    // next must be a field
                    if let Some(PElem::Field(k)) = p.proj.get(i + 1) {
                        i += 1;
                        match en.variants.get(v) {
                            Some(fs) => fs.get(*k as usize).cloned().unwrap_or(Val::Top),
                            None => Val::Bot,
                        }
                    } else {
                        return Val::Top;
                    }
                }
                // newtype-like access into opaque or scalar: unknown
                _ => return Val::Top,
            };
            i += 1;
        }
        cur
    }

    /// strong update when every index on the path is concrete, weak (join) otherwise
    pub fn write(&mut self, p: &Ptr, v: Val) {
        let weak = p.proj.iter().any(|e| matches!(e, PElem::IndexRange(..)));
        let fr = match self.frames.get_mut(p.frame as usize) {
            Some(f) => f,
            None => return,
        };
        if (p.local as usize) >= fr.locals.len() {
            return;
        }
        fr.bump(p.local);
        // writes through a pointer invalidate origins that point into the same local
        let (pf, pl) = (p.frame, p.local);
        for f in self.frames.iter_mut() {
            f.origin.retain(|e| !(e.2.frame == pf && e.2.local == pl));
            f.discr.retain(|e| !(e.2.frame == pf && e.2.local == pl));
        }
        let fr = &mut self.frames[p.frame as usize];
        let slot = &mut fr.locals[p.local as usize];
        write_into(slot, &p.proj[..], v, weak);
    }

    /// refine (meet) the value stored at a concrete place; no version bump (the value only shrinks)
    pub fn refine_at(&mut self, p: &Ptr, v: Val) {
        if p.proj.iter().any(|e| matches!(e, PElem::IndexRange(..))) {
            return;
        }
        let fr = match self.frames.get_mut(p.frame as usize) {
            Some(f) => f,
            None => return,
        };
        if (p.local as usize) >= fr.locals.len() {
            return;
        }
        let slot = &mut fr.locals[p.local as usize];
        write_into(slot, &p.proj[..], v, false);
    }
}

fn write_into(slot: &mut Val, proj: &[PElem], v: Val, weak: bool) {
    if proj.is_empty() {
        if weak {
            *slot = slot.join(&v);
        } else {
            *slot = v;
        }
        return;
    }
    match (&mut *slot, &proj[0]) {
        (Val::Top, _) => {} // unknown aggregate stays unknown
        (Val::Tuple(t), PElem::Field(k)) => {
            let t = Rc::make_mut(t);
            if let Some(s) = t.get_mut(*k as usize) {
                write_into(s, &proj[1..], v, weak);
            }
        }
        (Val::Arr(a), PElem::Index(k)) => {
            if *k >= 0 && (*k as u64) < a.len {
                let a = Rc::make_mut(a);
                a.touch(*k as u64, *k as u64);
                let mut cur = a.get(*k as u64).clone();
                write_into(&mut cur, &proj[1..], v, weak);
                a.set(*k as u64, cur);
            }
        }
        (Val::Arr(a), PElem::IndexRange(lo, hi)) => {
            let a = Rc::make_mut(a);
            let lo = (*lo).max(0) as u64;
            let hi = ((*hi).max(0) as u64).min(a.len.saturating_sub(1));
            a.touch(lo, hi);
            if proj.len() == 1 {
                a.weak_set(lo, hi, &v);
            } else if lo <= hi && hi - lo < 4096 {
                for i in lo..=hi {
                    let mut cur = a.get(i).clone();
                    write_into(&mut cur, &proj[1..], v.clone(), true);
                    a.set(i, cur);
                }
                // the default must also absorb the write when not all indices were materialised
            } else {
                let mut d = a.default.clone();
                write_into(&mut d, &proj[1..], v.clone(), true);
                a.default = d;
                let keys: Vec<u64> = a.over.keys().cloned().collect();
                for k in keys {
                    let mut cur = a.over[&k].clone();
                    write_into(&mut cur, &proj[1..], v.clone(), true);
                    a.over.insert(k, cur);
                }
            }
        }
        (Val::Enum(en), PElem::Downcast(var)) => {
            if let Some(PElem::Field(k)) = proj.get(1) {
                let en = Rc::make_mut(en);
                if let Some(fs) = en.variants.get_mut(var) {
                    if let Some(s) = fs.get_mut(*k as usize) {
                        write_into(s, &proj[2..], v, weak);
                    }
                }
            }
        }
        (s @ Val::Bot, _) => {
            // writing a component of an uninitialised aggregate whose shape we do not know: give up
            *s = Val::Top;
        }
        _ => {
            *slot = Val::Top;
        }
    }
}
