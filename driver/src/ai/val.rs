// Abstract value domain: intervals with machine type, sparse linear (exact or modular) forms over
// atoms, one-atom real-coefficient affine forms (for shift quotients), taint; aggregates.
use std::collections::BTreeMap;
use std::rc::Rc;

pub type AtomId = u32;
/// pseudo-frame holding constants / statics (read-only)
pub const STATICS: u32 = u32::MAX;

#[derive(Clone, Copy, Debug, PartialEq, Eq, Hash, PartialOrd, Ord)]
pub struct ITy {
    pub bits: u8, // 1 (bool), 8, 16, 32, 64, 128
    pub signed: bool,
}

impl ITy {
    pub const BOOL: ITy = ITy { bits: 1, signed: false };
    pub const U8: ITy = ITy { bits: 8, signed: false };
    pub const U16: ITy = ITy { bits: 16, signed: false };
    pub const U32: ITy = ITy { bits: 32, signed: false };
    pub const I32: ITy = ITy { bits: 32, signed: true };
    pub const I64: ITy = ITy { bits: 64, signed: true };
    pub const USIZE: ITy = ITy { bits: 64, signed: false };
    pub const ISIZE: ITy = ITy { bits: 64, signed: true };
    pub const I128: ITy = ITy { bits: 128, signed: true };
    pub fn min(self) -> i128 {
        if self.bits == 1 {
            0
        } else if self.signed {
            if self.bits == 128 {
                i128::MIN
            } else {
                -(1i128 << (self.bits - 1))
            }
        } else {
            0
        }
    }
    pub fn max(self) -> i128 {
        if self.bits == 1 {
            1
        } else if self.signed {
            if self.bits == 128 {
                i128::MAX
            } else {
                (1i128 << (self.bits - 1)) - 1
            }
        } else if self.bits >= 127 {
            i128::MAX // u128 is clipped; never used by the crate for large values
        } else {
            (1i128 << self.bits) - 1
        }
    }
    /// wrap an exact integer into the type (two's complement)
    pub fn wrap(self, v: i128) -> i128 {
        if self.bits >= 128 {
            return v;
        }
        if self.bits == 1 {
            return v & 1;
        }
        let m = 1i128 << self.bits;
        let mut r = v.rem_euclid(m);
        if self.signed && r >= (m >> 1) {
            r -= m;
        }
        r
    }
}

thread_local! {
    /// maximal number of terms of a linear form (job option `lin.cap`; 6 unless the LIN tier is on)
    pub static LIN_CAP: std::cell::Cell<usize> = std::cell::Cell::new(6);
}

/// Sparse linear form  sum(coef_i * atom_i) + d,  exact when m == 0, otherwise a congruence mod m.
#[derive(Clone, Debug, PartialEq, Eq, Hash)]
pub struct Lin {
    pub m: i128,
    pub d: i128,
    pub terms: Vec<(AtomId, i128)>, // sorted by atom, coef != 0
}

impl Lin {
    pub fn atom(a: AtomId) -> Lin {
        Lin { m: 0, d: 0, terms: vec![(a, 1)] }
    }
    pub fn konst(c: i128) -> Lin {
        Lin { m: 0, d: c, terms: vec![] }
    }
    pub fn from_parts(m: i128, d: i128, terms: Vec<(AtomId, i128)>) -> Option<Lin> {
        Lin { m, d, terms }.norm()
    }
    fn norm(mut self) -> Option<Lin> {
        if self.m < 0 {
            self.m = -self.m;
        }
        if self.m == 1 {
            return None;
        }
        self.terms.sort_by_key(|t| t.0);
        let mut out: Vec<(AtomId, i128)> = Vec::with_capacity(self.terms.len());
        for (a, c) in self.terms.drain(..) {
            if let Some(last) = out.last_mut() {
                if last.0 == a {
                    last.1 = last.1.checked_add(c)?;
                    continue;
                }
            }
            out.push((a, c));
        }
        if self.m > 0 {
            for t in out.iter_mut() {
                t.1 = t.1.rem_euclid(self.m);
            }
            self.d = self.d.rem_euclid(self.m);
        }
        out.retain(|t| t.1 != 0);
        if out.len() > LIN_CAP.with(|c| c.get()) {
            return None;
        }
        self.terms = out;
        Some(self)
    }
    fn common_mod(a: i128, b: i128) -> i128 {
        // 0 = exact. combining exact with mod m gives m; two moduli give their gcd
        if a == 0 {
            return b;
        }
        if b == 0 {
            return a;
        }
        gcd(a, b)
    }
    pub fn add(&self, o: &Lin) -> Option<Lin> {
        let m = Lin::common_mod(self.m, o.m);
        let mut terms = self.terms.clone();
        terms.extend(o.terms.iter().cloned());
        Lin { m, d: self.d.checked_add(o.d)?, terms }.norm()
    }
    pub fn neg(&self) -> Option<Lin> {
        let mut terms = self.terms.clone();
        for t in terms.iter_mut() {
            t.1 = t.1.checked_neg()?;
        }
        Lin { m: self.m, d: self.d.checked_neg()?, terms }.norm()
    }
    pub fn sub(&self, o: &Lin) -> Option<Lin> {
        self.add(&o.neg()?)
    }
    pub fn scale(&self, k: i128) -> Option<Lin> {
        let mut terms = self.terms.clone();
        for t in terms.iter_mut() {
            t.1 = t.1.checked_mul(k)?;
        }
        Lin { m: self.m, d: self.d.checked_mul(k)?, terms }.norm()
    }
    /// reduce an exact or finer congruence to modulus m2 (m2 must divide self.m when self.m != 0)
    pub fn modulo(&self, m2: i128) -> Option<Lin> {
        if m2 <= 1 {
            return None;
        }
        if self.m != 0 && self.m % m2 != 0 {
            let g = gcd(self.m, m2);
            if g <= 1 {
                return None;
            }
            return Lin { m: g, d: self.d, terms: self.terms.clone() }.norm();
        }
        Lin { m: m2, d: self.d, terms: self.terms.clone() }.norm()
    }
    pub fn is_exact(&self) -> bool {
        self.m == 0
    }
    pub fn single(&self) -> Option<(AtomId, i128, i128)> {
        if self.m == 0 && self.terms.len() == 1 {
            Some((self.terms[0].0, self.terms[0].1, self.d))
        } else {
            None
        }
    }
    pub fn as_const(&self) -> Option<i128> {
        if self.m == 0 && self.terms.is_empty() {
            Some(self.d)
        } else {
            None
        }
    }
}

pub fn gcd(a: i128, b: i128) -> i128 {
    let (mut a, mut b) = (a.abs(), b.abs());
    while b != 0 {
        let t = a % b;
        a = b;
        b = t;
    }
    a
}

/// v in alpha*atom + beta, alpha in [a_lo,a_hi], beta in [b_lo,b_hi]; f64 with outward rounding.
#[derive(Clone, Copy, Debug, PartialEq)]
pub struct Aff {
    pub atom: AtomId,
    pub a_lo: f64,
    pub a_hi: f64,
    pub b_lo: f64,
    pub b_hi: f64,
}

fn dn(x: f64) -> f64 {
    if x.is_finite() {
        x.next_down()
    } else {
        x
    }
}
fn up(x: f64) -> f64 {
    if x.is_finite() {
        x.next_up()
    } else {
        x
    }
}
fn i2f_dn(x: i128) -> f64 {
    let f = x as f64;
    if (f as i128) == x && f.abs() < 9.0e15 {
        f
    } else {
        dn(f)
    }
}
fn i2f_up(x: i128) -> f64 {
    let f = x as f64;
    if (f as i128) == x && f.abs() < 9.0e15 {
        f
    } else {
        up(f)
    }
}

impl Aff {
    pub fn atom(a: AtomId) -> Aff {
        Aff { atom: a, a_lo: 1.0, a_hi: 1.0, b_lo: 0.0, b_hi: 0.0 }
    }
    pub fn add(&self, o: &Aff) -> Option<Aff> {
        if self.atom != o.atom {
            return None;
        }
        Some(Aff {
            atom: self.atom,
            a_lo: dn(self.a_lo + o.a_lo),
            a_hi: up(self.a_hi + o.a_hi),
            b_lo: dn(self.b_lo + o.b_lo),
            b_hi: up(self.b_hi + o.b_hi),
        })
    }
    pub fn neg(&self) -> Aff {
        Aff { atom: self.atom, a_lo: -self.a_hi, a_hi: -self.a_lo, b_lo: -self.b_hi, b_hi: -self.b_lo }
    }
    pub fn sub(&self, o: &Aff) -> Option<Aff> {
        self.add(&o.neg())
    }
    pub fn add_itv(&self, lo: i128, hi: i128) -> Aff {
        Aff { b_lo: dn(self.b_lo + i2f_dn(lo)), b_hi: up(self.b_hi + i2f_up(hi)), ..*self }
    }
    pub fn scale(&self, k: i128) -> Aff {
        let kl = i2f_dn(k);
        let kh = i2f_up(k);
        let c = [self.a_lo * kl, self.a_lo * kh, self.a_hi * kl, self.a_hi * kh];
        let d = [self.b_lo * kl, self.b_lo * kh, self.b_hi * kl, self.b_hi * kh];
        Aff {
            atom: self.atom,
            a_lo: dn(c.iter().cloned().fold(f64::INFINITY, f64::min)),
            a_hi: up(c.iter().cloned().fold(f64::NEG_INFINITY, f64::max)),
            b_lo: dn(d.iter().cloned().fold(f64::INFINITY, f64::min)),
            b_hi: up(d.iter().cloned().fold(f64::NEG_INFINITY, f64::max)),
        }
    }
    /// floor(v / 2^k)
    pub fn shr(&self, k: u32) -> Aff {
        let s = (2.0f64).powi(k as i32); // exact power of two: division is exact unless subnormal
        Aff {
            atom: self.atom,
            a_lo: self.a_lo / s,
            a_hi: self.a_hi / s,
            // floor(x / 2^k) = x / 2^k - f with f in [0, 1 - 2^-k] because x is an integer
            b_lo: dn(self.b_lo / s - (1.0 - 1.0 / s)),
            b_hi: self.b_hi / s,
        }
    }
    pub fn eval(&self, alo: i128, ahi: i128) -> (f64, f64) {
        let xl = i2f_dn(alo);
        let xh = i2f_up(ahi);
        let c = [self.a_lo * xl, self.a_lo * xh, self.a_hi * xl, self.a_hi * xh];
        let lo = dn(dn(c.iter().cloned().fold(f64::INFINITY, f64::min)) + self.b_lo);
        let hi = up(up(c.iter().cloned().fold(f64::NEG_INFINITY, f64::max)) + self.b_hi);
        (lo, hi)
    }
}

pub const T_RNG: u8 = 1; // derived from RNG output
pub const T_SK: u8 = 2; // derived from private-key material

#[derive(Clone, Debug, PartialEq)]
pub struct IntV {
    pub lo: i128,
    pub hi: i128,
    pub ty: ITy,
    pub lin: Option<Rc<Lin>>,
    pub affs: Vec<Aff>,
    pub taint: u8,
    /// value is the canonical representative  (lin mod m) in [0, m)  -- set by rem_euclid
    pub canon: Option<Rc<Lin>>,
}

impl IntV {
    pub fn new(lo: i128, hi: i128, ty: ITy) -> IntV {
        IntV { lo, hi, ty, lin: None, affs: Vec::new(), taint: 0, canon: None }
    }
    pub fn konst(c: i128, ty: ITy) -> IntV {
        IntV { lo: c, hi: c, ty, lin: Some(Rc::new(Lin::konst(c))), affs: Vec::new(), taint: 0, canon: None }
    }
    pub fn top(ty: ITy) -> IntV {
        IntV::new(ty.min(), ty.max(), ty)
    }
    pub fn boolean(b: bool) -> IntV {
        IntV::konst(b as i128, ITy::BOOL)
    }
    pub fn any_bool() -> IntV {
        IntV::new(0, 1, ITy::BOOL)
    }
    pub fn is_const(&self) -> Option<i128> {
        if self.lo == self.hi {
            Some(self.lo)
        } else {
            None
        }
    }
    pub fn is_top(&self) -> bool {
        self.lo <= self.ty.min() && self.hi >= self.ty.max()
    }
    pub fn with_taint(mut self, t: u8) -> IntV {
        self.taint |= t;
        self
    }
    pub fn plain(&self) -> IntV {
        IntV { lo: self.lo, hi: self.hi, ty: self.ty, lin: None, affs: Vec::new(), taint: self.taint, canon: None }
    }
    pub fn join(&self, o: &IntV) -> IntV {
        IntV {
            lo: self.lo.min(o.lo),
            hi: self.hi.max(o.hi),
            ty: self.ty,
            lin: lin_join(&self.lin, &o.lin),
            affs: self.affs.iter().filter(|a| o.affs.contains(a)).cloned().collect(),
            taint: self.taint | o.taint,
            canon: if self.canon == o.canon { self.canon.clone() } else { None },
        }
    }
    pub fn leq(&self, o: &IntV) -> bool {
        self.lo >= o.lo && self.hi <= o.hi && (self.taint & !o.taint) == 0 && (o.lin.is_none() || o.lin == self.lin)
            && o.affs.iter().all(|a| self.affs.contains(a)) && (o.canon.is_none() || o.canon == self.canon)
    }
    pub fn widen(&self, new: &IntV) -> IntV {
        let j = self.join(new);
        IntV {
            lo: if j.lo < self.lo { widen_down(j.lo, self.ty) } else { j.lo },
            hi: if j.hi > self.hi { widen_up(j.hi, self.ty) } else { j.hi },
            ..j
        }
    }
    pub fn short(&self) -> String {
        let t = if self.taint != 0 { format!("~t{}", self.taint) } else { String::new() };
        let c = match &self.lin {
            Some(l) if l.m > 1 && l.terms.is_empty() => format!("={}(mod {})", l.d, l.m),
            _ => String::new(),
        };
        if self.lo == self.hi {
            format!("{}{}", self.lo, t)
        } else {
            format!("[{},{}]{}{}", self.lo, self.hi, c, t)
        }
    }
}

/// weakest common linear information of two values: equal forms, or a congruence modulo their
/// constant difference (x + Q and x are both congruent to x mod Q)
pub fn lin_join(a: &Option<Rc<Lin>>, b: &Option<Rc<Lin>>) -> Option<Rc<Lin>> {
    let (x, y) = (a.as_ref()?, b.as_ref()?);
    if x == y {
        return Some(x.clone());
    }
    let m = match (x.m, y.m) {
        (0, 0) => 0,
        (0, m) | (m, 0) => m,
        (p, q) => gcd(p, q),
    };
    let (x2, y2) = if m == 0 { ((**x).clone(), (**y).clone()) } else { (x.modulo(m)?, y.modulo(m)?) };
    if x2.terms != y2.terms {
        return None;
    }
    let diff = (x2.d - y2.d).abs();
    let m2 = if m == 0 { diff } else { gcd(m, diff) };
    if m2 <= 1 {
        return None;
    }
    x2.modulo(m2).map(Rc::new)
}

const THRESH: [i128; 14] = [0, 1, 15, 16, 255, 256, 65535, 65536, 8380416, 8380417, 16760834, 2147483647, 4294967295, 9223372036854775807];

fn widen_up(v: i128, ty: ITy) -> i128 {
    for t in THRESH {
        if v <= t && t <= ty.max() {
            return t;
        }
    }
    ty.max()
}
fn widen_down(v: i128, ty: ITy) -> i128 {
    for t in THRESH {
        if v >= -t && -t >= ty.min() {
            return -t;
        }
    }
    ty.min()
}

/// Place path element.
#[derive(Clone, Debug, PartialEq)]
pub enum PElem {
    Field(u32),
    Index(i128),              // concrete index
    IndexRange(i128, i128),   // any index in [lo, hi]
    Downcast(u32),
}

#[derive(Clone, Debug, PartialEq)]
pub struct Ptr {
    pub frame: u32,
    pub local: u32,
    pub proj: Rc<Vec<PElem>>,
}

impl Ptr {
    pub fn local(frame: u32, local: u32) -> Ptr {
        Ptr { frame, local, proj: Rc::new(Vec::new()) }
    }
    pub fn push(&self, e: PElem) -> Ptr {
        let mut v = (*self.proj).clone();
        v.push(e);
        Ptr { frame: self.frame, local: self.local, proj: Rc::new(v) }
    }
}

#[derive(Clone, Debug, PartialEq)]
pub struct ArrV {
    pub len: u64, // u64::MAX >> 1 for unbounded buffers behind input slices
    pub default: Val,
    pub over: BTreeMap<u64, Val>,
    /// exact-copy provenance: the whole array is an unmodified copy of the named source (an XOF
    /// read, a generator request, an input field / byte range); cleared by every element write
    pub tag: Option<Rc<str>>,
    /// the same for byte ranges [lo, hi) of the array (serialisers assemble their output from copies)
    pub segs: Vec<(u64, u64, Rc<str>)>,
}

impl ArrV {
    pub fn uniform(v: Val, len: u64) -> ArrV {
        ArrV { len, default: v, over: BTreeMap::new(), tag: None, segs: Vec::new() }
    }
    pub fn touch(&mut self, lo: u64, hi: u64) {
        // elements lo..=hi are (possibly) rewritten
        self.tag = None;
        if !self.segs.is_empty() {
            self.segs.retain(|s| s.1 <= lo || s.0 > hi);
        }
    }
    pub fn get(&self, i: u64) -> &Val {
        self.over.get(&i).unwrap_or(&self.default)
    }
    pub fn set(&mut self, i: u64, v: Val) {
        self.touch(i, i);
        if v == self.default {
            self.over.remove(&i);
        } else {
            self.over.insert(i, v);
        }
    }
    pub fn get_range(&self, lo: u64, hi: u64) -> Val {
        // join of all elements with index in [lo, hi]
        let hi = hi.min(self.len.saturating_sub(1));
        if lo > hi {
            return Val::Bot;
        }
        let n_over = self.over.range(lo..=hi).count() as u64;
        let mut acc = if n_over < hi - lo + 1 { self.default.clone() } else { Val::Bot };
        for (_, v) in self.over.range(lo..=hi) {
            acc = acc.join(v);
        }
        acc
    }
    pub fn weak_set(&mut self, lo: u64, hi: u64, v: &Val) {
        self.touch(lo, hi);
        let hi = hi.min(self.len.saturating_sub(1));
        if lo > hi {
            return;
        }
        if hi - lo < 512 {
            for i in lo..=hi {
                let nv = self.get(i).join(v);
                self.set(i, nv);
            }
        } else {
            let keys: Vec<u64> = self.over.range(lo..=hi).map(|(k, _)| *k).collect();
            for k in keys {
                let nv = self.over[&k].join(v);
                self.over.insert(k, nv);
            }
            self.default = self.default.join(v);
        }
    }
    pub fn all_elems_join(&self) -> Val {
        let mut acc = if (self.over.len() as u64) < self.len { self.default.clone() } else { Val::Bot };
        for v in self.over.values() {
            acc = acc.join(v);
        }
        acc
    }
    pub fn compress(&mut self) {
        // if every index is overridden with the same value, fold into default
        if self.len <= 4096 && self.over.len() as u64 == self.len && self.len > 0 {
            let first = self.over.values().next().unwrap().clone();
            if self.over.values().all(|v| *v == first) {
                self.default = first;
                self.over.clear();
            }
        }
        let d = self.default.clone();
        self.over.retain(|_, v| *v != d);
    }
}

#[derive(Clone, Debug, PartialEq)]
pub struct EnumV {
    /// possible variants with their field values
    pub variants: BTreeMap<u32, Vec<Val>>,
}

/// Absorbed item of a hash/XOF: where the bytes came from and how many.
#[derive(Clone, Debug, PartialEq)]
pub struct Absorb {
    pub src: String, // symbolic source description
    pub len_lo: i128,
    pub len_hi: i128,
    pub consts: Option<Vec<u8>>, // when all bytes are known constants
    pub taint: u8,
    /// taint bits carried by EVERY byte of the item
    pub taint_all: u8,
    /// the item is the WHOLE of a root input slice (start 0, length = that input's length symbol)
    pub whole: bool,
    pub lin: Option<String>, // for single bytes: rendered linear form (identity of ctx.len etc.)
    /// exact-copy provenance of the item (tag of the array it is a whole / range copy of)
    pub tag: Option<String>,
}

#[derive(Clone, Debug, PartialEq)]
pub enum Opaque {
    Hasher { kind: String, absorbed: Rc<Vec<Absorb>> },
    Xof { kind: String, absorbed: Rc<Vec<Absorb>>, pos_lo: i128, pos_hi: i128, id: u32 },
    Digest { kind: String, absorbed: Rc<Vec<Absorb>>, len: u64, taint: u8 },
    Str,
    /// iterator descriptors
    Iter(Box<IterV>),
    Other(String),
}

#[derive(Clone, Debug, PartialEq)]
pub enum IterV {
    /// iterator over the elements of a slice (fat pointer in `base`), yields references
    Slice { base: Val, pos: u64, mutable: bool },
    /// by-value array iterator
    ArrayInto { arr: Val, pos: u64 },
    ChunksMut { base: Val, chunk: u64, pos: u64 },
    Map { inner: Box<IterV>, f: Val, fty: usize },
    Filter { inner: Box<IterV>, f: Val, fty: usize },
    FlatMap { inner: Box<IterV>, f: Val, fty: usize, cur: Option<Box<IterV>> },
    Enumerate { inner: Box<IterV>, count: u64 },
    Take { inner: Box<IterV>, n: u64 },
    Zip { a: Box<IterV>, b: Box<IterV> },
}

#[derive(Clone, Debug, PartialEq)]
pub enum Val {
    Bot,    // no value (unreachable / uninitialised)
    Top,    // any value of the type
    Int(IntV),
    Tuple(Rc<Vec<Val>>), // tuples, structs, closures (upvars)
    Enum(Rc<EnumV>),
    Arr(Rc<ArrV>),
    Ref(Ptr),
    /// fat pointer to a slice: elements [start, start+len) of the array at `base`
    Slice { base: Ptr, start: IntV, len: IntV },
    Opq(Opaque),
}

impl Val {
    pub fn unit() -> Val {
        Val::Tuple(Rc::new(Vec::new()))
    }
    pub fn int(lo: i128, hi: i128, ty: ITy) -> Val {
        Val::Int(IntV::new(lo, hi, ty))
    }
    pub fn konst(c: i128, ty: ITy) -> Val {
        Val::Int(IntV::konst(c, ty))
    }
    pub fn as_int(&self) -> Option<&IntV> {
        match self {
            Val::Int(i) => Some(i),
            _ => None,
        }
    }
    pub fn join(&self, o: &Val) -> Val {
        if self == o {
            return self.clone();
        }
        match (self, o) {
            (Val::Bot, x) | (x, Val::Bot) => x.clone(),
            (Val::Top, _) | (_, Val::Top) => Val::Top,
            (Val::Int(a), Val::Int(b)) => Val::Int(a.join(b)),
            (Val::Tuple(a), Val::Tuple(b)) if a.len() == b.len() => {
                if Rc::ptr_eq(a, b) {
                    return self.clone();
                }
                Val::Tuple(Rc::new(a.iter().zip(b.iter()).map(|(x, y)| x.join(y)).collect()))
            }
            (Val::Enum(a), Val::Enum(b)) => {
                if Rc::ptr_eq(a, b) {
                    return self.clone();
                }
                let mut m = a.variants.clone();
                for (k, v) in &b.variants {
                    match m.get_mut(k) {
                        Some(e) => {
                            let nv: Vec<Val> = e.iter().zip(v.iter()).map(|(x, y)| x.join(y)).collect();
                            *e = nv;
                        }
                        None => {
                            m.insert(*k, v.clone());
                        }
                    }
                }
                Val::Enum(Rc::new(EnumV { variants: m }))
            }
            (Val::Arr(a), Val::Arr(b)) if a.len == b.len => {
                if Rc::ptr_eq(a, b) {
                    return self.clone();
                }
                let mut r = ArrV { len: a.len, default: a.default.join(&b.default), over: BTreeMap::new(), tag: if a.tag == b.tag { a.tag.clone() } else { None }, segs: a.segs.iter().filter(|x| b.segs.contains(x)).cloned().collect() };
                let keys: std::collections::BTreeSet<u64> = a.over.keys().chain(b.over.keys()).cloned().collect();
                for k in keys {
                    let v = a.get(k).join(b.get(k));
                    if v != r.default {
                        r.over.insert(k, v);
                    }
                }
                Val::Arr(Rc::new(r))
            }
            (Val::Ref(a), Val::Ref(b)) => {
                if a == b {
                    self.clone()
                } else if a.frame == b.frame && a.local == b.local && a.proj.len() == b.proj.len() {
                    // same base, differing concrete indices -> index range
                    let mut proj = Vec::new();
                    for (x, y) in a.proj.iter().zip(b.proj.iter()) {
                        if x == y {
                            proj.push(x.clone());
                            continue;
                        }
                        let rx = idx_range(x);
                        let ry = idx_range(y);
                        match (rx, ry) {
                            (Some((l1, h1)), Some((l2, h2))) => proj.push(PElem::IndexRange(l1.min(l2), h1.max(h2))),
                            _ => return Val::Top,
                        }
                    }
                    Val::Ref(Ptr { frame: a.frame, local: a.local, proj: Rc::new(proj) })
                } else {
                    Val::Top
                }
            }
            (Val::Slice { base: b1, start: s1, len: l1 }, Val::Slice { base: b2, start: s2, len: l2 }) if b1 == b2 => {
                Val::Slice { base: b1.clone(), start: s1.join(s2), len: l1.join(l2) }
            }
            (Val::Opq(a), Val::Opq(b)) => match (a, b) {
                (Opaque::Xof { kind: k1, absorbed: a1, pos_lo: l1, pos_hi: h1, id: i1 }, Opaque::Xof { kind: k2, absorbed: a2, pos_lo: l2, pos_hi: h2, id: i2 })
                    if k1 == k2 && a1 == a2 && i1 == i2 =>
                {
                    Val::Opq(Opaque::Xof { kind: k1.clone(), absorbed: a1.clone(), pos_lo: *l1.min(l2), pos_hi: *h1.max(h2), id: *i1 })
                }
                (Opaque::Xof { kind: k1, .. }, Opaque::Xof { kind: k2, .. }) if k1 == k2 => {
                    // different absorb histories merged (e.g. the three mu paths): keep kind only
                    Val::Opq(Opaque::Xof { kind: k1.clone(), absorbed: Rc::new(vec![Absorb { src: "<joined>".into(), len_lo: 0, len_hi: i128::MAX, consts: None, taint: 3, taint_all: 0, whole: false, lin: None, tag: None }]), pos_lo: 0, pos_hi: i128::MAX, id: u32::MAX })
                }
                (Opaque::Str, Opaque::Str) => Val::Opq(Opaque::Str),
                _ => Val::Top,
            },
            _ => Val::Top,
        }
    }

    pub fn leq(&self, o: &Val) -> bool {
        if self == o {
            return true;
        }
        match (self, o) {
            (Val::Bot, _) => true,
            (_, Val::Top) => true,
            (Val::Int(a), Val::Int(b)) => a.leq(b),
            (Val::Tuple(a), Val::Tuple(b)) if a.len() == b.len() => a.iter().zip(b.iter()).all(|(x, y)| x.leq(y)),
            (Val::Enum(a), Val::Enum(b)) => a.variants.iter().all(|(k, v)| match b.variants.get(k) {
                Some(w) => v.iter().zip(w.iter()).all(|(x, y)| x.leq(y)),
                None => false,
            }),
            (Val::Arr(a), Val::Arr(b)) if a.len == b.len => {
                if b.tag.is_some() && a.tag != b.tag {
                    return false;
                }
                if !b.segs.iter().all(|x| a.segs.contains(x)) {
                    return false;
                }
                if !a.default.leq(&b.default) && (a.over.len() as u64) < a.len {
                    return false;
                }
                let keys: std::collections::BTreeSet<u64> = a.over.keys().chain(b.over.keys()).cloned().collect();
                keys.iter().all(|k| a.get(*k).leq(b.get(*k)))
            }
            (Val::Slice { base: b1, start: s1, len: l1 }, Val::Slice { base: b2, start: s2, len: l2 }) => b1 == b2 && s1.leq(s2) && l1.leq(l2),
            _ => self.join(o) == *o,
        }
    }

    pub fn widen(&self, new: &Val) -> Val {
        match (self, new) {
            (Val::Int(a), Val::Int(b)) => Val::Int(a.widen(b)),
            (Val::Tuple(a), Val::Tuple(b)) if a.len() == b.len() => Val::Tuple(Rc::new(a.iter().zip(b.iter()).map(|(x, y)| x.widen(y)).collect())),
            (Val::Arr(a), Val::Arr(b)) if a.len == b.len => {
                let mut r = ArrV { len: a.len, default: a.default.widen(&b.default), over: BTreeMap::new(), tag: if a.tag == b.tag { a.tag.clone() } else { None }, segs: a.segs.iter().filter(|x| b.segs.contains(x)).cloned().collect() };
                let keys: std::collections::BTreeSet<u64> = a.over.keys().chain(b.over.keys()).cloned().collect();
                for k in keys {
                    let v = a.get(k).widen(b.get(k));
                    if v != r.default {
                        r.over.insert(k, v);
                    }
                }
                Val::Arr(Rc::new(r))
            }
            (Val::Enum(a), Val::Enum(b)) => {
                let j = self.join(new);
                if let Val::Enum(je) = &j {
                    let mut m = je.variants.clone();
                    for (k, v) in m.iter_mut() {
                        if let (Some(x), Some(y)) = (a.variants.get(k), b.variants.get(k)) {
                            *v = x.iter().zip(y.iter()).map(|(p, q)| p.widen(q)).collect();
                        }
                    }
                    return Val::Enum(Rc::new(EnumV { variants: m }));
                }
                j
            }
            (Val::Slice { base: b1, start: s1, len: l1 }, Val::Slice { base: b2, start: s2, len: l2 }) if b1 == b2 => {
                Val::Slice { base: b1.clone(), start: s1.widen(s2), len: l1.widen(l2) }
            }
            (Val::Opq(Opaque::Xof { pos_hi: h1, .. }), Val::Opq(Opaque::Xof { .. })) => {
                let j = self.join(new);
                if let Val::Opq(Opaque::Xof { kind, absorbed, pos_lo, pos_hi, id }) = j {
                    let ph = if pos_hi > *h1 { i128::MAX } else { pos_hi };
                    return Val::Opq(Opaque::Xof { kind, absorbed, pos_lo, pos_hi: ph, id });
                }
                j
            }
            _ => self.join(new),
        }
    }

    /// forget relational information tied to atoms >= `from` (leaving a scalar region)
    pub fn strip_atoms(&self, from: AtomId) -> Val {
        match self {
            Val::Int(i) => {
                let mut j = i.clone();
                if let Some(l) = &j.lin {
                    if l.terms.iter().any(|t| t.0 >= from) {
                        j.lin = None;
                    }
                }
                j.affs.retain(|a| a.atom < from);
                if let Some(l) = &j.canon {
                    if l.terms.iter().any(|t| t.0 >= from) {
                        j.canon = None;
                    }
                }
                Val::Int(j)
            }
            Val::Tuple(t) => Val::Tuple(Rc::new(t.iter().map(|v| v.strip_atoms(from)).collect())),
            Val::Enum(e) => Val::Enum(Rc::new(EnumV {
                variants: e.variants.iter().map(|(k, v)| (*k, v.iter().map(|x| x.strip_atoms(from)).collect())).collect(),
            })),
            other => other.clone(),
        }
    }

    /// drop exact-copy provenance (values stored in memo tables are replayed for other concrete inputs)
    pub fn strip_tags(&self) -> Val {
        match self {
            Val::Tuple(t) => Val::Tuple(Rc::new(t.iter().map(|v| v.strip_tags()).collect())),
            Val::Enum(e) => Val::Enum(Rc::new(EnumV { variants: e.variants.iter().map(|(k, v)| (*k, v.iter().map(|x| x.strip_tags()).collect())).collect() })),
            Val::Arr(a) => {
                let mut r = (**a).clone();
                r.tag = None;
                r.segs.clear();
                r.default = r.default.strip_tags();
                for v in r.over.values_mut() {
                    *v = v.strip_tags();
                }
                Val::Arr(Rc::new(r))
            }
            other => other.clone(),
        }
    }

    pub fn with_tag(&self, tag: &str) -> Val {
        match self {
            Val::Arr(a) => {
                let mut r = (**a).clone();
                r.tag = Some(Rc::from(tag));
                Val::Arr(Rc::new(r))
            }
            other => other.clone(),
        }
    }

    pub fn tag_of(&self) -> Option<Rc<str>> {
        match self {
            Val::Arr(a) => a.tag.clone(),
            _ => None,
        }
    }

    pub fn taint_all(&self, t: u8) -> Val {
        if t == 0 {
            return self.clone();
        }
        match self {
            Val::Int(i) => Val::Int(i.clone().with_taint(t)),
            Val::Tuple(v) => Val::Tuple(Rc::new(v.iter().map(|x| x.taint_all(t)).collect())),
            Val::Arr(a) => {
                let mut r = (**a).clone();
                r.default = r.default.taint_all(t);
                for v in r.over.values_mut() {
                    *v = v.taint_all(t);
                }
                Val::Arr(Rc::new(r))
            }
            Val::Enum(e) => Val::Enum(Rc::new(EnumV {
                variants: e.variants.iter().map(|(k, v)| (*k, v.iter().map(|x| x.taint_all(t)).collect())).collect(),
            })),
            other => other.clone(),
        }
    }

    pub fn taint_of(&self) -> u8 {
        match self {
            Val::Int(i) => i.taint,
            Val::Tuple(v) => v.iter().fold(0, |a, x| a | x.taint_of()),
            Val::Arr(a) => a.over.values().fold(a.default.taint_of(), |acc, x| acc | x.taint_of()),
            Val::Enum(e) => e.variants.values().flat_map(|v| v.iter()).fold(0, |a, x| a | x.taint_of()),
            Val::Opq(Opaque::Digest { taint, .. }) => *taint,
            Val::Opq(Opaque::Xof { absorbed, .. }) | Val::Opq(Opaque::Hasher { absorbed, .. }) => absorbed.iter().fold(0, |a, x| a | x.taint),
            _ => 0,
        }
    }

    pub fn short(&self) -> String {
        match self {
            Val::Bot => "⊥".into(),
            Val::Top => "⊤".into(),
            Val::Int(i) => i.short(),
            Val::Tuple(v) => format!("({})", v.iter().map(|x| x.short()).collect::<Vec<_>>().join(",")),
            Val::Enum(e) => format!(
                "enum{{{}}}",
                e.variants.iter().map(|(k, v)| format!("{}:({})", k, v.iter().map(|x| x.short()).collect::<Vec<_>>().join(","))).collect::<Vec<_>>().join("|")
            ),
            Val::Arr(a) => {
                let j = a.all_elems_join();
                format!("arr[{}]{{{}{}}}", a.len, j.short(), if a.over.is_empty() { "" } else { "*" })
            }
            Val::Ref(p) => format!("&f{}._{}{:?}", p.frame, p.local, p.proj),
            Val::Slice { base, start, len } => format!("&f{}._{}{:?}[{}..+{}]", base.frame, base.local, base.proj, start.short(), len.short()),
            Val::Opq(o) => match o {
                Opaque::Hasher { kind, absorbed } => format!("hasher<{}>({})", kind, absorbed.len()),
                Opaque::Xof { kind, absorbed, .. } => format!("xof<{}>({})", kind, absorbed.len()),
                Opaque::Digest { kind, .. } => format!("digest<{}>", kind),
                Opaque::Str => "str".into(),
                Opaque::Iter(_) => "iter".into(),
                Opaque::Other(s) => s.clone(),
            },
        }
    }
}

fn idx_range(e: &PElem) -> Option<(i128, i128)> {
    match e {
        PElem::Index(i) => Some((*i, *i)),
        PElem::IndexRange(l, h) => Some((*l, *h)),
        _ => None,
    }
}

