// Job runner: builds abstract inputs for a root, runs the interpreter, renders results as JSON.
use super::exec::*;
use super::interp::*;
use super::models::*;
use super::state::*;
use super::val::*;
use crate::facts::{inst_name, reachable_instances};
use crate::jobj;
use crate::json::J;
use rustc_middle::ty::{self, Instance, Ty, TyCtxt, TypingEnv};
use std::collections::BTreeMap;
use std::rc::Rc;

#[derive(Clone, Debug, Default)]
pub struct Job {
    pub id: String,
    pub root: String,
    pub opts: BTreeMap<String, String>,
}

pub fn parse_jobs(text: &str) -> Vec<Job> {
    let mut v = Vec::new();
    for line in text.lines() {
        let line = line.trim();
        if line.is_empty() || line.starts_with('#') {
            continue;
        }
        let mut it = line.split('\t');
        let id = it.next().unwrap().to_string();
        let root = it.next().unwrap_or("").to_string();
        let mut opts = BTreeMap::new();
        for kv in it {
            if let Some((k, val)) = kv.split_once('=') {
                opts.insert(k.to_string(), val.to_string());
            }
        }
        v.push(Job { id, root, opts });
    }
    v
}

fn parse_range(s: &str) -> Option<(i128, i128)> {
    let (a, b) = s.split_once("..")?;
    let hi = if b == "max" { i128::MAX } else { b.parse().ok()? };
    Some((a.parse().ok()?, hi))
}

pub struct Runner<'tcx> {
    pub ip: Interp<'tcx>,
    pub roots: Vec<(Instance<'tcx>, TypingEnv<'tcx>)>,
    pub names: Vec<String>,
    pub cache: BTreeMap<String, Val>,
    pub big_atoms: bool,
}

impl<'tcx> Runner<'tcx> {
    pub fn new(tcx: TyCtxt<'tcx>) -> Runner<'tcx> {
        let roots = reachable_instances(tcx);
        let names = roots.iter().map(|r| inst_name(tcx, r.0)).collect();
        Runner { ip: Interp::new(tcx), roots, names, cache: BTreeMap::new(), big_atoms: false }
    }

    pub fn find_root(&self, pat: &str) -> Option<usize> {
        // exact match first, then unique substring
        if let Some(i) = self.names.iter().position(|n| n == pat) {
            return Some(i);
        }
        let c: Vec<usize> = self.names.iter().enumerate().filter(|(_, n)| n.contains(pat)).map(|(i, _)| i).collect();
        if c.len() == 1 {
            Some(c[0])
        } else {
            None
        }
    }

    fn new_input(&mut self, st: &mut State, name: &str, v: Val) -> Ptr {
        st.frames[0].locals.push(v);
        st.frames[0].vers.push(0);
        self.ip.input_names.push(name.to_string());
        Ptr::local(0, (st.frames[0].locals.len() - 1) as u32)
    }

    fn byte_slice_input(&mut self, st: &mut State, name: &str, len: (i128, i128), taint: u8) -> Val {
        let big = (u64::MAX >> 2) as u64;
        let arr = ArrV::uniform(Val::Int(IntV::new(0, 255, ITy::U8).with_taint(taint)), big);
        let p = self.new_input(st, name, Val::Arr(Rc::new(arr)));
        let hi = len.1.min(ITy::USIZE.max() >> 2);
        let a = self.ip.fresh_atom(st, len.0, hi, None);
        self.ip.atom_names.insert(a, format!("len({})", name));
        let mut l = IntV::new(len.0, hi, ITy::USIZE);
        l.lin = Some(Rc::new(Lin::atom(a)));
        Val::Slice { base: p, start: IntV::konst(0, ITy::USIZE), len: l }
    }

    /// abstract value for one parameter of a root
    /// option `bytes.argN=pos:lo..hi;pos:lo..hi` pins individual bytes of a byte array / slice input
    fn apply_byte_overrides(&mut self, st: &mut State, job: &Job, idx: usize, v: Val) -> Val {
        let Some(spec) = job.opts.get(&format!("bytes.arg{}", idx)) else { return v };
        let mut ov: Vec<(u64, i128, i128)> = Vec::new();
        for part in spec.split(';') {
            if let Some((p, r)) = part.split_once(':') {
                if let (Ok(p), Some((lo, hi))) = (p.parse::<u64>(), parse_range(r)) {
                    ov.push((p, lo, hi));
                }
            }
        }
        let patch = |a: &ArrV| -> ArrV {
            let mut n = a.clone();
            for (p, lo, hi) in &ov {
                if *p < n.len {
                    let t = n.get(*p).taint_of();
                    n.set(*p, Val::Int(IntV::new(*lo, *hi, ITy::U8).with_taint(t)));
                }
            }
            n
        };
        match &v {
            Val::Arr(a) => Val::Arr(Rc::new(patch(a))),
            Val::Ref(p) | Val::Slice { base: p, .. } => {
                if let Val::Arr(a) = st.read(p) {
                    let n = patch(&a);
                    st.write(p, Val::Arr(Rc::new(n)));
                }
                v
            }
            _ => v,
        }
    }

    fn input_for(&mut self, st: &mut State, job: &Job, idx: usize, name: &str, t: Ty<'tcx>, module: &str) -> Val {
        let v = self.input_for0(st, job, idx, name, t, module);
        let v = self.apply_byte_overrides(st, job, idx, v);
        if job.opts.contains_key(&format!("taint.arg{}", idx)) && !matches!(v, Val::Ref(_) | Val::Slice { .. }) {
            return v.taint_all(T_SK);
        }
        v
    }

    fn input_for0(&mut self, st: &mut State, job: &Job, idx: usize, name: &str, t: Ty<'tcx>, module: &str) -> Val {
        let tcx = self.ip.tcx;
        let key = format!("arg{}", idx);
        if let Some(it) = ity_of(t) {
            let r = job.opts.get(&key).and_then(|s| parse_range(s)).map(|r| (r.0.max(it.min()), r.1.min(it.max()))).unwrap_or((it.min(), it.max()));
            // named root atom so that results can be reported as exact functions of the input
            if job.opts.contains_key(&format!("atom.{}", key)) || job.opts.contains_key(&format!("scale.{}", key)) {
                let scale: i128 = job.opts.get(&format!("scale.{}", key)).and_then(|s| s.parse().ok()).unwrap_or(1);
                let a = self.ip.fresh_atom(st, r.0, r.1, None);
                self.ip.atom_names.insert(a, key.clone());
                let mut v = IntV::new(r.0.saturating_mul(scale).max(it.min()), r.1.saturating_mul(scale).min(it.max()), it);
                v.lin = Some(Rc::new(Lin { m: 0, d: 0, terms: vec![(a, scale)] }));
                return Val::Int(v);
            }
            return Val::Int(IntV::new(r.0, r.1, it));
        }
        match t.kind() {
            ty::Ref(_, inner, m) => {
                // &[u8]
                if let ty::Slice(et) = inner.kind() {
                    if *et == tcx.types.u8 {
                        let r = job.opts.get(&format!("len.{}", name)).and_then(|s| parse_range(s)).unwrap_or((0, i128::MAX));
                        let t = if job.opts.contains_key(&format!("taint.arg{}", idx)) { T_SK } else { 0 };
                        let sl = self.byte_slice_input(st, name, r, t);
                        // `atoms.argN=bits` on a slice of fixed length: every bit of bytes 0..len is a boolean atom
                        if job.opts.get(&format!("atoms.arg{}", idx)).map(|m| m == "bits").unwrap_or(false) && r.0 == r.1 && r.0 <= 16384 {
                            if let Val::Slice { base, .. } = &sl {
                                if let Val::Arr(arr) = st.read(base) {
                                    let mut n = (*arr).clone();
                                    for i in 0..(r.0 as u64) {
                                        let mut terms = Vec::new();
                                        for k in 0..8 {
                                            let a = self.ip.fresh_atom(st, 0, 1, None);
                                            self.ip.atom_names.insert(a, format!("arg{}[{}].{}", idx, i, k));
                                            terms.push((a, 1i128 << k));
                                        }
                                        let mut b = IntV::new(0, 255, ITy::U8);
                                        b.taint = t;
                                        b.lin = Some(Rc::new(Lin { m: 0, d: 0, terms }));
                                        n.over.insert(i, Val::Int(b));
                                    }
                                    st.refine_at(base, Val::Arr(Rc::new(n)));
                                }
                            }
                        }
                        return sl;
                    }
                }
                let tn = format!("{:?}", inner);
                if tn.contains("PrivateKey<") || tn.contains("PublicKey<") {
                    let kind = if tn.contains("PrivateKey<") { "sk" } else { "pk" };
                    let prod = job.opts.get(kind).cloned().unwrap_or_else(|| "from_bytes".to_string());
                    let v = self.key_value(kind, &prod, module);
                    let v = self.tag_key_fields(v, *inner, kind);
                    let v = if job.opts.contains_key("atoms.key") { self.atomize_key(st, v, *inner, kind) } else { v };
                    let p = self.new_input(st, name, v);
                    return Val::Ref(p);
                }
                if m.is_mut() && (tn.contains("CryptoRngCore") || tn.contains("OsRng") || matches!(inner.kind(), ty::Param(_))) {
                    let p = self.new_input(st, name, Val::unit());
                    return Val::Ref(p);
                }
                let v = self.input_for(st, job, idx, name, *inner, module);
                let p = self.new_input(st, name, v);
                Val::Ref(p)
            }
            ty::Adt(adt, _) if adt.is_enum() => {
                let mut v = self.ip.top_of(t, 0);
                if let Some(k) = job.opts.get(&format!("variant.{}", name)).and_then(|s| s.parse::<u32>().ok()) {
                    if let Val::Enum(e) = &v {
                        let mut m = BTreeMap::new();
                        if let Some(fs) = e.variants.get(&k) {
                            m.insert(k, fs.clone());
                        }
                        v = Val::Enum(Rc::new(EnumV { variants: m }));
                    }
                }
                v
            }
            ty::Adt(..) => {
                let tn = format!("{:?}", t);
                if tn.contains("PrivateKey<") || tn.contains("PublicKey<") {
                    let kind = if tn.contains("PrivateKey<") { "sk" } else { "pk" };
                    let prod = job.opts.get(kind).cloned().unwrap_or_else(|| "from_bytes".to_string());
                    let v = self.key_value(kind, &prod, module);
                    return self.tag_key_fields(v, t, kind);
                }
                self.ip.top_of(t, 0)
            }
            ty::Array(et, _) if *et == tcx.types.u8 => {
                let taint = if job.opts.get(&format!("taint.{}", name)).is_some() { T_RNG } else { 0 };
                let v = self.ip.top_of(t, 0).taint_all(taint);
                self.shape_ints(st, job, &key, v).with_tag(&format!("in.{}", name))
            }
            _ => {
                let v = self.ip.top_of(t, 0);
                self.shape_ints(st, job, &key, v)
            }
        }
    }

    /// LIN tier (`atoms.key=1`): every i32 leaf of a key struct handed to a consumer becomes a named symbol
    /// `<kind>.<field>[i]` (i counts the leaves of that field), keeping its interval
    fn atomize_key(&mut self, st: &mut State, v: Val, t: ty::Ty<'tcx>, kind: &str) -> Val {
        let names: Vec<String> = match t.kind() {
            ty::Adt(adt, _) if adt.is_struct() => adt.non_enum_variant().fields.iter().map(|f| f.name.to_string()).collect(),
            _ => return v,
        };
        let Val::Tuple(fs) = &v else { return v };
        if fs.len() != names.len() {
            return v;
        }
        let saved = self.big_atoms;
        self.big_atoms = true;
        let mut out = Vec::new();
        for (f, nm) in fs.iter().zip(names.iter()) {
            let mut counter = 0usize;
            let key = format!("{}.{}", kind, nm);
            let nf = self.map_ints(st, f, &mut |me: &mut Self, st: &mut State, i: &IntV| {
                if i.ty.bits <= 8 {
                    return i.clone();
                }
                let a = me.ip.fresh_atom(st, i.lo, i.hi, None);
                me.ip.atom_names.insert(a, format!("{}[{}]", key, counter));
                counter += 1;
                let mut n = IntV::new(i.lo, i.hi, i.ty);
                n.taint = i.taint;
                n.lin = Some(Rc::new(Lin::atom(a)));
                n
            });
            // map_ints rebuilds arrays without provenance: keep the tag of byte fields
            out.push(match (f.tag_of(), &nf) {
                (Some(t), Val::Arr(_)) => nf.with_tag(&t),
                _ => nf,
            });
        }
        self.big_atoms = saved;
        Val::Tuple(Rc::new(out))
    }

    /// key structs handed to a consumer: every array field is an exact copy of `<kind>.<field name>`
    fn tag_key_fields(&self, v: Val, t: ty::Ty<'tcx>, kind: &str) -> Val {
        let v = v.strip_tags();
        let names: Vec<String> = match t.kind() {
            ty::Adt(adt, _) if adt.is_struct() => adt.non_enum_variant().fields.iter().map(|f| f.name.to_string()).collect(),
            _ => Vec::new(),
        };
        match &v {
            Val::Tuple(fs) if fs.len() == names.len() => Val::Tuple(Rc::new(fs.iter().zip(names.iter()).map(|(f, n)| f.with_tag(&format!("{}.{}", kind, n))).collect())),
            _ => v,
        }
    }

    /// options `elems.argN=lo..hi` (all integer leaves in that range), `atoms.argN=uniform` (all leaves
    /// are the same unknown value, a named root atom), `atoms.argN=each` (one atom per leaf, small arrays)
    fn shape_ints(&mut self, st: &mut State, job: &Job, key: &str, v: Val) -> Val {
        let range = job.opts.get(&format!("elems.{}", key)).and_then(|s| parse_range(s));
        let mode = job.opts.get(&format!("atoms.{}", key)).cloned();
        let boxes: Vec<(i128, i128)> = job.opts.get(&format!("box.{}", key)).map(|s| s.split(';').filter_map(|x| parse_range(x)).collect()).unwrap_or_default();
        if range.is_none() && mode.is_none() && boxes.is_empty() {
            return v;
        }
        let mut uniform_atom: Option<AtomId> = None;
        let mut counter = 0usize;
        self.map_ints(st, &v, &mut |me: &mut Self, st: &mut State, i: &IntV| {
            let (lo, hi) = match (boxes.get(counter), range) {
                (Some(r), _) => (r.0.max(i.ty.min()), r.1.min(i.ty.max())),
                (None, Some(r)) => (r.0.max(i.ty.min()), r.1.min(i.ty.max())),
                _ => (i.lo, i.hi),
            };
            let mut n = IntV::new(lo, hi, i.ty);
            n.taint = i.taint;
            match mode.as_deref() {
                Some("uniform") => {
                    let a = match uniform_atom {
                        Some(a) => a,
                        None => {
                            let a = me.ip.fresh_atom(st, lo, hi, None);
                            me.ip.atom_names.insert(a, key.to_string());
                            uniform_atom = Some(a);
                            a
                        }
                    };
                    n.lin = Some(Rc::new(Lin::atom(a)));
                }
                Some("each") => {
                    let a = me.ip.fresh_atom(st, lo, hi, None);
                    me.ip.atom_names.insert(a, format!("{}[{}]", key, counter));
                    n.lin = Some(Rc::new(Lin::atom(a)));
                }
                Some(mode_s) if mode_s.starts_with("bits") && mode_s.len() > 4 && i.ty.bits > 8 => {
                    // `bitsN`: an integer leaf is the sum of N boolean atoms (layout analyses of encoders)
                    let nb: u32 = mode_s[4..].parse().unwrap_or(0);
                    let mut terms = Vec::new();
                    for k in 0..nb {
                        let a = me.ip.fresh_atom(st, 0, 1, None);
                        me.ip.atom_names.insert(a, format!("{}[{}].{}", key, counter, k));
                        terms.push((a, 1i128 << k));
                    }
                    n = IntV::new(0, (1i128 << nb) - 1, i.ty);
                    n.taint = i.taint;
                    n.lin = Some(Rc::new(Lin { m: 0, d: 0, terms }));
                }
                Some("bits") if i.ty.bits == 8 && !i.ty.signed => {
                    // every bit of the byte is a boolean atom: byte = sum 2^k * bit_k
                    let mut terms = Vec::new();
                    for k in 0..8 {
                        let a = me.ip.fresh_atom(st, 0, 1, None);
                        me.ip.atom_names.insert(a, format!("{}[{}].{}", key, counter, k));
                        terms.push((a, 1i128 << k));
                    }
                    n = IntV::new(0, 255, i.ty);
                    n.taint = i.taint;
                    n.lin = Some(Rc::new(Lin { m: 0, d: 0, terms }));
                }
                _ => {}
            }
            counter += 1;
            n
        })
    }

    fn map_ints(&mut self, st: &mut State, v: &Val, f: &mut dyn FnMut(&mut Self, &mut State, &IntV) -> IntV) -> Val {
        match v {
            Val::Int(i) => Val::Int(f(self, st, i)),
            Val::Tuple(t) => Val::Tuple(Rc::new(t.iter().map(|x| self.map_ints(st, x, f)).collect())),
            Val::Arr(a) => {
                let mut r = ArrV::uniform(Val::Bot, a.len);
                if a.len <= 16 || (self.big_atoms && a.len <= 16384) {
                    for i in 0..a.len {
                        let e = self.map_ints(st, a.get(i), f);
                        r.over.insert(i, e);
                    }
                } else {
                    r.default = self.map_ints(st, &a.default, f);
                }
                Val::Arr(Rc::new(r))
            }
            other => other.clone(),
        }
    }

    /// abstract key struct produced by a key producer of the same parameter-set module
    fn key_value(&mut self, kind: &str, prod: &str, module: &str) -> Val {
        let ck = format!("{}|{}|{}", module, kind, prod);
        if let Some(v) = self.cache.get(&ck) {
            return v.clone();
        }
        let find = |me: &Self, pat: &str| -> Option<usize> { me.names.iter().position(|n| n.contains(module) && n.contains(pat)) };
        let v = match (kind, prod) {
            ("sk", "from_bytes") => {
                let i = find(self, "SerDes for types::PrivateKey<K, L>>::try_from_bytes");
                self.run_producer(i, &format!("{}:sk:from_bytes", module)).map(|v| enum_payload(&v, 0, 0))
            }
            ("pk", "from_bytes") => {
                let i = find(self, "SerDes for types::PublicKey<K, L>>::try_from_bytes");
                self.run_producer(i, &format!("{}:pk:from_bytes", module)).map(|v| enum_payload(&v, 0, 0))
            }
            ("sk", "keygen") | ("pk", "keygen") => {
                let i = find(self, "KeyGen>::keygen_from_seed");
                self.run_producer(i, &format!("{}:keygen", module)).map(|v| match v {
                    Val::Tuple(t) if t.len() == 2 => t[if kind == "pk" { 0 } else { 1 }].clone(),
                    _ => Val::Top,
                })
            }
            ("pk", "derived_from_bytes") | ("pk", "derived_keygen") => {
                let skprod = if prod.ends_with("keygen") { "keygen" } else { "from_bytes" };
                let i = find(self, "Signer for types::PrivateKey<K, L>>::get_public_key");
                let mut job = Job::default();
                job.id = format!("{}:pk:derived:{}", module, skprod);
                job.opts.insert("sk".into(), skprod.into());
                match i {
                    Some(i) => {
                        let (v, _) = self.run_root(i, &job);
                        v
                    }
                    None => None,
                }
            }
            ("sk", "top") | ("pk", "top") => None,
            _ => None,
        };
        let v = v.unwrap_or(Val::Top);
        self.cache.insert(ck, v.clone());
        v
    }

    fn run_producer(&mut self, i: Option<usize>, id: &str) -> Option<Val> {
        let i = i?;
        let mut job = Job::default();
        job.id = id.to_string();
        let (v, _) = self.run_root(i, &job);
        v
    }

    /// run one root; returns the joined return value and the partitions rendered
    pub fn run_root(&mut self, ri: usize, job: &Job) -> (Option<Val>, Vec<String>) {
        let (inst, env) = self.roots[ri];
        let name = self.names[ri].clone();
        let mut module = name.split("::").find(|s| s.starts_with("ml_dsa_")).unwrap_or("").trim_start_matches('<').to_string();
        if module.is_empty() {
            // trait-default roots (`traits::Signer::try_sign::<types::PrivateKey<6_usize, 5_usize>>`): the parameter set is in the generics
            for (kl, m) in [("<4_usize, 4_usize>", "ml_dsa_44"), ("<6_usize, 5_usize>", "ml_dsa_65"), ("<8_usize, 7_usize>", "ml_dsa_87")] {
                if name.contains(kl) {
                    module = m.to_string();
                }
            }
        }
        let saved_root = std::mem::replace(&mut self.ip.cur_root, job.id.clone());
        let saved_env = std::mem::replace(&mut self.ip.env, env);
        let saved_rng = self.ip.rng_mode;
        let saved_inputs = std::mem::take(&mut self.ip.input_names);
        let saved_stack = std::mem::take(&mut self.ip.stack);
        let saved_names = std::mem::take(&mut self.ip.atom_names);
        let saved_region = (self.ip.region_depth, std::mem::take(&mut self.ip.region_start));
        self.ip.region_depth = 0;
        let saved_next = std::mem::replace(&mut self.ip.next_atom, 0);
        self.ip.rng_mode = match job.opts.get("rng").map(|s| s.as_str()) {
            Some("ok") => 1,
            Some("err") => 2,
            Some(x) if x.starts_with("fail") => 3 + x[4..].parse::<u8>().unwrap_or(0),
            _ => 0,
        };
        if env != TypingEnv::fully_monomorphized() {
            // bodies are cached per instance; generic roots use their own environment
        }
        let mut st = State { frames: vec![FrameSt::new(0)], atoms: Rc::new(Vec::new()), rng_count: 0, facts: Rc::new(Default::default()) };
        let Some(bi) = self.ip.body_of(inst) else {
            self.ip.cur_root = saved_root;
            self.ip.env = saved_env;
            return (None, vec!["no body".into()]);
        };
        let mut args = Vec::new();
        for (i, l) in bi.body.args_iter().enumerate() {
            let t = bi.body.local_decls[l].ty;
            let mut pname = format!("arg{}", i);
            for vdi in &bi.body.var_debug_info {
                if let rustc_middle::mir::VarDebugInfoContents::Place(pl) = &vdi.value {
                    if pl.local == l && pl.projection.is_empty() {
                        pname = vdi.name.to_string();
                    }
                }
            }
            let v = self.input_for(&mut st, job, i, &pname, t, &module);
            args.push(v);
        }
        let args_copy: Vec<Val> = args.clone();
        let mut parts = self.ip.call_instance(st, inst, args);
        // `result_from_arg=N`: the analysed function writes its result through the &mut argument N: report the
        // pointee of that argument after the call as the job's result
        if let Some(n) = job.opts.get("result_from_arg").and_then(|s| s.parse::<usize>().ok()) {
            if let Ok(ps) = &parts {
                let mut out2: Vec<(State, Val)> = Vec::new();
                for (s, _) in ps.iter() {
                    let v = match args_copy.get(n) {
                        Some(Val::Ref(p)) => s.read(p),
                        Some(Val::Slice { base, start, len }) => match (s.read(base), start.is_const(), len.is_const()) {
                            (Val::Arr(a), Some(s0), Some(nn)) if nn <= 16384 => {
                                let mut r = ArrV::uniform(Val::Bot, nn as u64);
                                for i in 0..(nn as u64) {
                                    r.over.insert(i, a.get(s0 as u64 + i).clone());
                                }
                                Val::Arr(Rc::new(r))
                            }
                            _ => Val::Top,
                        },
                        _ => Val::Top,
                    };
                    out2.push((s.clone(), v));
                }
                parts = Ok(out2);
            }
        }
        // `then=<root>`: feed the Ok payload (or the plain result) of this root to a second root in the
        // same state, so that named atoms flow through both (round-trip analyses)
        if let Some(next) = job.opts.get("then") {
            if let (Ok(ps), Some(ri2)) = (&parts, self.find_root(next)) {
                let (inst2, _) = self.roots[ri2];
                let mut out2: Vec<(State, Val)> = Vec::new();
                for (s, v) in ps.iter() {
                    let mut arg = match v {
                        Val::Enum(e) => match e.variants.get(&0).and_then(|fs| fs.get(0)) {
                            Some(x) => x.clone(),
                            None => continue,
                        },
                        other => other.clone(),
                    };
                    if let Some(k) = job.opts.get("then.field").and_then(|s| s.parse::<usize>().ok()) {
                        arg = match &arg {
                            Val::Tuple(t) => match t.get(k) {
                                Some(x) => x.clone(),
                                None => continue,
                            },
                            _ => continue,
                        };
                    }
                    let mut s2 = s.clone();
                    let argv: Vec<Val> = if job.opts.contains_key("then.spread") {
                        // the payload tuple becomes the argument list (values are passed by reference through fresh
                        // input slots), optionally after constant integer arguments `then.prefix=v:i32,...`
                        let mut av: Vec<Val> = Vec::new();
                        if let Some(p) = job.opts.get("then.prefix") {
                            for item in p.split(',') {
                                let (v, _t) = item.split_once(':').unwrap_or((item, "i32"));
                                if let Ok(c) = v.parse::<i128>() {
                                    av.push(Val::Int(IntV::konst(c, ITy::I32)));
                                }
                            }
                        }
                        match &arg {
                            Val::Tuple(t) => {
                                for (k, e) in t.iter().enumerate() {
                                    // Option<T> payloads: continue with the Some value
                                    let e = match e {
                                        Val::Enum(en) if en.variants.keys().all(|k| *k <= 1) && en.variants.get(&1).map(|f| f.len() == 1).unwrap_or(false) => &en.variants[&1][0],
                                        other => other,
                                    };
                                    match e {
                                        Val::Ref(_) | Val::Slice { .. } => av.push(e.clone()),
                                        other => {
                                            let p = self.new_input(&mut s2, &format!("chain{}", k), other.clone());
                                            av.push(Val::Ref(p));
                                        }
                                    }
                                }
                            }
                            _ => continue,
                        }
                        av
                    } else {
                        vec![arg]
                    };
                    if let Ok(r) = self.ip.call_instance(s2, inst2, argv) {
                        out2.extend(r);
                    }
                }
                parts = Ok(out2);
            }
        }
        let mut rendered = Vec::new();
        let mut joined: Option<Val> = None;
        if let Ok(parts) = parts {
            for (_, v) in parts {
                rendered.push(v.short());
                joined = Some(match joined {
                    Some(j) => j.join(&v),
                    None => v,
                });
            }
        }
        self.ip.cur_root = saved_root;
        self.ip.env = saved_env;
        self.ip.rng_mode = saved_rng;
        self.ip.input_names = saved_inputs;
        self.ip.stack = saved_stack;
        self.ip.last_atom_names = std::mem::replace(&mut self.ip.atom_names, saved_names);
        self.ip.region_depth = saved_region.0;
        self.ip.next_atom = saved_next;
        self.ip.region_start = saved_region.1;
        // returned values must not keep references into the dead synthetic frame
        (joined, rendered)
    }
}

fn enum_payload(v: &Val, variant: u32, field: usize) -> Val {
    match v {
        Val::Enum(e) => e.variants.get(&variant).and_then(|fs| fs.get(field)).cloned().unwrap_or(Val::Bot),
        _ => Val::Top,
    }
}

/// integer leaves of a result as [lo, hi, c, d] with value = c * x + d (x = the analysed argument)
fn collect_leaves(v: &Val, names: &std::collections::HashMap<AtomId, String>, argk: &str, out: &mut Vec<J>, exact: &mut bool) {
    match v {
        Val::Int(i) => {
            if i.lo == i.hi {
                out.push(J::Arr(vec![J::Int(i.lo), J::Int(i.hi), J::Int(0), J::Int(i.lo)]));
                return;
            }
            if let Some(l) = &i.lin {
                if let Some((a, c, d)) = l.single() {
                    if names.get(&a).map(|n| n == argk).unwrap_or(false) {
                        out.push(J::Arr(vec![J::Int(i.lo), J::Int(i.hi), J::Int(c), J::Int(d)]));
                        return;
                    }
                }
            }
            *exact = false;
            out.push(J::Arr(vec![J::Int(i.lo), J::Int(i.hi), J::Null, J::Null]));
        }
        Val::Tuple(t) => {
            for x in t.iter() {
                collect_leaves(x, names, argk, out, exact);
            }
        }
        Val::Enum(e) => {
            // variant set is part of the answer: exact only when a single variant is possible
            if e.variants.len() != 1 {
                *exact = false;
            }
            for (k, fs) in &e.variants {
                out.push(J::Arr(vec![J::s(format!("variant{}", k))]));
                for x in fs {
                    collect_leaves(x, names, argk, out, exact);
                }
            }
        }
        Val::Arr(a) => {
            let j = a.all_elems_join();
            collect_leaves(&j, names, argk, out, exact);
        }
        _ => {
            *exact = false;
        }
    }
}

/// structural description of a type with field / variant names (mirrors the nesting of `val_summary`)
pub fn type_shape<'tcx>(tcx: TyCtxt<'tcx>, t: ty::Ty<'tcx>, depth: u32) -> J {
    if depth > 5 {
        return J::s(format!("{:?}", t));
    }
    match t.kind() {
        ty::Adt(adt, args) if adt.is_struct() => {
            let fs: Vec<J> = adt.non_enum_variant().fields.iter().map(|f| J::Arr(vec![J::s(f.name.to_string()), type_shape(tcx, f.ty(tcx, args), depth + 1)])).collect();
            jobj! {"struct" => J::s(tcx.def_path_str(adt.did())), "fields" => J::Arr(fs)}
        }
        ty::Adt(adt, args) if adt.is_enum() => {
            let vs: Vec<J> = adt
                .variants()
                .iter()
                .map(|v| J::Arr(vec![J::s(v.name.to_string()), J::Arr(v.fields.iter().map(|f| type_shape(tcx, f.ty(tcx, args), depth + 1)).collect())]))
                .collect();
            jobj! {"enum" => J::s(tcx.def_path_str(adt.did())), "variants" => J::Arr(vs)}
        }
        ty::Tuple(ts) => jobj! {"tuple" => J::Arr(ts.iter().map(|x| type_shape(tcx, x, depth + 1)).collect())},
        ty::Array(et, _) => jobj! {"array" => type_shape(tcx, *et, depth + 1)},
        _ => J::s(format!("{:?}", t)),
    }
}

pub fn val_summary(v: &Val, depth: u32) -> J {
    match v {
        Val::Int(i) => {
            let mut o = jobj! {"int" => J::Arr(vec![J::Int(i.lo), J::Int(i.hi)]), "taint" => J::i(i.taint)};
            if let Some(l) = &i.lin {
                if l.m == 0 && !l.terms.is_empty() {
                    o.set("lin", J::Arr(vec![J::Int(l.d), J::Arr(l.terms.iter().map(|t| J::Arr(vec![J::Int(t.0 as i128), J::Int(t.1)])).collect())]));
                }
            }
            o
        }
        Val::Tuple(t) if depth < 4 => J::Arr(t.iter().map(|x| val_summary(x, depth + 1)).collect()),
        Val::Enum(e) if depth < 4 => {
            let mut m = J::obj();
            for (k, fs) in &e.variants {
                m.set(&format!("v{}", k), J::Arr(fs.iter().map(|x| val_summary(x, depth + 1)).collect()));
            }
            jobj! {"enum" => m}
        }
        Val::Arr(a) => {
            let j = a.all_elems_join();
            let mut o = jobj! {"arr_len" => J::i(a.len as i128), "elems" => val_summary(&j, depth + 1)};
            if let Some(t) = &a.tag {
                o.set("tag", J::s(t.to_string()));
            }
            if !a.segs.is_empty() {
                o.set("segs", J::Arr(a.segs.iter().map(|s| J::Arr(vec![J::i(s.0 as i128), J::i(s.1 as i128), J::s(s.2.to_string())])).collect()));
            }
            o
        }
        other => J::s(other.short()),
    }
}

pub fn run<'tcx>(tcx: TyCtxt<'tcx>) -> String {
    let jobs_path = std::env::var("VERIF_JOBS").expect("VERIF_JOBS");
    let text = std::fs::read_to_string(&jobs_path).expect("read jobs");
    let jobs = parse_jobs(&text);
    let mut rn = Runner::new(tcx);
    if let Ok(b) = std::env::var("VERIF_BUDGET") {
        if let Ok(n) = b.parse::<u64>() {
            rn.ip.budget = n;
        }
    }
    let mut out_jobs = Vec::new();
    for job in &jobs {
        let t0 = std::time::Instant::now();
        let Some(ri) = rn.find_root(&job.root) else {
            out_jobs.push(jobj! {"id" => J::s(job.id.clone()), "error" => J::s(format!("root not found or ambiguous: {}", job.root))});
            continue;
        };
        rn.ip.taint_track = job.opts.contains_key("taint");
        rn.ip.moduli = Rc::new(job.opts.get("modulus").map(|s| s.split(',').filter_map(|x| x.parse::<i128>().ok()).collect()).unwrap_or_default());
        rn.ip.peel = job.opts.get("peel").map(|s| s.split('|').filter_map(|x| x.rsplit_once(':').and_then(|(f, n)| Some((f.to_string(), n.parse::<u32>().ok()?)))).collect()).unwrap_or_default();
        rn.big_atoms = job.opts.contains_key("atoms.big");
        let cap = job.opts.get("lin.cap").and_then(|s| s.parse::<usize>().ok());
        LIN_CAP.with(|c| c.set(cap.unwrap_or(6)));
        rn.ip.lin_tier = cap.is_some();
        rn.ip.atomize = job.opts.get("atomize").map(|s| s.split('|').map(|x| x.to_string()).collect()).unwrap_or_default();
        rn.ip.atomize_count.clear();
        rn.ip.prod_atoms.clear();
        rn.ip.dump_args_count.clear();
        rn.ip.dump_args_pats = job.opts.get("dump_args").map(|s| s.split('|').map(|x| x.to_string()).collect()).unwrap_or_default();
        rn.ip.ident_pats = job.opts.get("identity").map(|s| s.split('|').map(|x| x.to_string()).collect()).unwrap_or_default();
        rn.ip.track_ret = job.opts.get("track_ret").map(|s| s.split('|').map(|x| x.to_string()).collect()).unwrap_or_default();
        rn.ip.loopcut = job.opts.get("loopcut").map(|s| s.split('|').filter_map(|x| x.rsplit_once(':').and_then(|(f, n)| Some((f.to_string(), n.parse::<u32>().ok()?)))).collect()).unwrap_or_default();
        let new_pats: Vec<String> = job.opts.get("probe").map(|s| s.split('|').map(|x| x.to_string()).collect()).unwrap_or_default();
        if new_pats != rn.ip.probe_pats {
            // memoised calls replay the probes recorded under the patterns of the job that created them
            rn.ip.pmemo.clear();
        }
        rn.ip.probe_pats = new_pats;
        let steps0 = rn.ip.steps;
        let probes0 = rn.ip.probes.len();
        rn.ip.call_trace.clear();
        rn.ip.reject_witness.clear();
        let budget_left = rn.ip.budget;
        if let Some(b) = job.opts.get("budget").and_then(|s| s.parse::<u64>().ok()) {
            rn.ip.budget = rn.ip.steps + b;
        }
        // in-driver piecewise analysis: bisect one integer argument until every cell is decided
        let mut cells_json: Option<J> = None;
        if let Some(argk) = job.opts.get("pwa") {
            let (lo0, hi0) = job.opts.get("pwa.range").and_then(|s| parse_range(s)).unwrap_or((0, 0));
            let want_exact = job.opts.get("pwa.accept").map(|s| s == "exact").unwrap_or(true);
            let mut stack = vec![(lo0, hi0)];
            // optional initial grid: split at every x = offset (mod period)
            if let Some((per, off)) = job.opts.get("pwa.grid").and_then(|s| s.split_once(':')).and_then(|(a, b)| Some((a.parse::<i128>().ok()?, b.parse::<i128>().ok()?))) {
                if per > 0 && (hi0 - lo0) / per < 100_000 {
                    stack.clear();
                    let mut start = lo0;
                    let mut b = lo0 + (off - lo0).rem_euclid(per);
                    if b == lo0 {
                        b += per;
                    }
                    while b <= hi0 {
                        stack.push((start, b - 1));
                        start = b;
                        b += per;
                    }
                    stack.push((start, hi0));
                    stack.reverse();
                }
            }
            rn.ip.fast_from_fn = job.opts.contains_key("fast_from_fn");
            let mut cells = Vec::new();
            let mut evals = 0u64;
            let max_evals: u64 = job.opts.get("pwa.max").and_then(|s| s.parse().ok()).unwrap_or(400_000);
            while let Some((lo, hi)) = stack.pop() {
                evals += 1;
                if evals > max_evals {
                    cells.push(J::Arr(vec![J::Int(lo), J::Int(hi), J::s("budget"), J::Null]));
                    continue;
                }
                let mut j2 = job.clone();
                if job.opts.contains_key("pwa.elems") {
                    j2.opts.insert(format!("elems.{}", argk), format!("{}..{}", lo, hi));
                    j2.opts.insert(format!("atoms.{}", argk), "uniform".into());
                } else {
                    j2.opts.insert(argk.clone(), format!("{}..{}", lo, hi));
                    if !job.opts.contains_key(&format!("scale.{}", argk)) {
                        j2.opts.insert(format!("atom.{}", argk), "1".into());
                    }
                }
                let ev0 = rn.ip.viol_events;
                let (v, _) = rn.run_root(ri, &j2);
                let violated = rn.ip.viol_events != ev0;
                let names = rn.ip.last_atom_names.clone();
                let mut leaves = Vec::new();
                let mut exact = v.is_some();
                if let Some(v) = &v {
                    collect_leaves(v, &names, argk, &mut leaves, &mut exact);
                }
                let decided = !violated && (exact || !want_exact);
                if decided || lo == hi {
                    let status = if violated { "violated" } else if exact { "exact" } else if want_exact { "inexact" } else { "safe" };
                    cells.push(J::Arr(vec![J::Int(lo), J::Int(hi), J::s(status), J::Arr(leaves)]));
                } else {
                    let mid = lo + (hi - lo) / 2;
                    stack.push((mid + 1, hi));
                    stack.push((lo, mid));
                }
            }
            rn.ip.fast_from_fn = false;
            cells_json = Some(jobj! {"cells" => J::Arr(cells), "evaluations" => J::i(evals as i128)});
        }
        let (v, parts) = if cells_json.is_some() { (None, vec![]) } else { rn.run_root(ri, job) };
        rn.ip.budget = budget_left;
        let probes: Vec<J> = rn.ip.probes[probes0..]
            .iter()
            .map(|p| {
                let mut d = J::obj();
                for (k, v) in &p.data {
                    d.set(k, J::s(v.clone()));
                }
                jobj! {"what" => J::s(p.what.clone()), "inst" => J::s(p.inst.clone()), "ctx" => J::s(p.ctx.clone()), "data" => d}
            })
            .collect();
        let mut calls = J::obj();
        for (k, n) in &rn.ip.call_trace {
            calls.set(k, J::i(*n as i128));
        }
        out_jobs.push(jobj! {
            "id" => J::s(job.id.clone()),
            "root" => J::s(rn.names[ri].clone()),
            "result" => match &v { Some(v) => val_summary(v, 0), None => J::Null },
            "partitions" => J::arr_s(parts),
            "ret_type" => {
                // shape of the (last) root's return type with field names, so that result nodes can be addressed by name
                let last = job.opts.get("then").and_then(|n| rn.find_root(n)).unwrap_or(ri);
                let (inst, env) = rn.roots[last];
                let sig = tcx.fn_sig(inst.def_id()).instantiate(tcx, inst.args).skip_norm_wip();
                let rt = tcx.normalize_erasing_late_bound_regions(env, sig.output());
                type_shape(tcx, rt, 0)
            },
            "lin_dump" => match (&v, job.opts.get("dump_lin")) {
                (Some(v), Some(_)) => {
                    // per integer leaf (in order): [modulus, constant, [[atom name, coefficient]...]] or null
                    let mut leaves: Vec<IntV> = Vec::new();
                    fn walk(v: &Val, out: &mut Vec<IntV>) {
                        match v {
                            Val::Int(i) if i.ty.bits > 8 => out.push(i.clone()),
                            Val::Tuple(t) => t.iter().for_each(|x| walk(x, out)),
                            Val::Arr(a) if a.len <= 4096 => (0..a.len).for_each(|k| walk(a.get(k), out)),
                            Val::Enum(e) => {
                                if let Some(fs) = e.variants.get(&0) {
                                    fs.iter().for_each(|x| walk(x, out));
                                }
                            }
                            _ => {}
                        }
                    }
                    walk(v, &mut leaves);
                    J::Arr(leaves.iter().map(|i| match &i.lin {
                        Some(l) => J::Arr(vec![J::Int(l.m), J::Int(l.d), J::Arr(l.terms.iter().map(|t| J::Arr(vec![J::s(rn.ip.last_atom_names.get(&t.0).cloned().unwrap_or_else(|| format!("a{}", t.0))), J::Int(t.1)])).collect()),
                                                J::Int(i.lo), J::Int(i.hi)]),
                        None => J::Null,
                    }).collect())
                }
                _ => J::Null,
            },
            "bytes_forms" => match (&v, job.opts.get("dump_bytes")) {
                (Some(Val::Arr(a)), Some(_)) if a.len <= 8192 => {
                    let names = &rn.ip.last_atom_names;
                    J::Arr((0..a.len).map(|i| match a.get(i) {
                        Val::Int(x) => match &x.lin {
                            Some(l) => J::Arr(vec![J::Int(l.m), J::Int(l.d), J::Arr(l.terms.iter().map(|t| J::Arr(vec![J::s(names.get(&t.0).cloned().unwrap_or_default()), J::Int(t.1)])).collect())]),
                            None => J::Null,
                        },
                        _ => J::Null,
                    }).collect())
                }
                _ => J::Null,
            },
            "bytes_identity" => match (&v, job.opts.get("bytes_identity")) {
                (Some(Val::Arr(a)), Some(key)) if a.len <= 8192 => {
                    // output byte i must be exactly  sum_k 2^k * <key>[i].k  (the bits of input byte i)
                    let names = &rn.ip.last_atom_names;
                    let mut same = 0i128;
                    let mut bad: Vec<J> = Vec::new();
                    for i in 0..a.len {
                        let ok = match a.get(i) {
                            Val::Int(x) => match &x.lin {
                                Some(l) if l.m == 0 && l.d == 0 && l.terms.len() == 8 => {
                                    let mut got: Vec<(String, i128)> = l.terms.iter().map(|t| (names.get(&t.0).cloned().unwrap_or_default(), t.1)).collect();
                                    got.sort_by_key(|t| t.1);
                                    (0..8).all(|k| got[k].1 == (1i128 << k) && got[k].0 == format!("{}[{}].{}", key, i, k))
                                }
                                _ => false,
                            },
                            _ => false,
                        };
                        if ok {
                            same += 1;
                        } else if bad.len() < 4 {
                            bad.push(J::Arr(vec![J::i(i as i128), J::s(a.get(i).short())]));
                        }
                    }
                    jobj! {"bytes" => J::i(a.len as i128), "identical" => J::Int(same), "first_different" => J::Arr(bad)}
                }
                _ => J::Null,
            },
            "steps" => J::i((rn.ip.steps - steps0) as i128),
            "over_budget" => J::Bool(rn.ip.over_budget),
            "probes" => J::Arr(probes),
            "calls" => calls,
            "pwa" => cells_json.unwrap_or(J::Null),
            "reject_witness" => J::Arr(rn.ip.reject_witness.iter().map(|w| val_summary(w, 0)).collect()),
            "atom_names" => { let mut m = J::obj(); for (k, v) in &rn.ip.last_atom_names { m.set(&k.to_string(), J::s(v.clone())); } m },
            "wall_ms" => J::i(t0.elapsed().as_millis() as i128),
        });
        rn.ip.over_budget = false;
    }
    let mut sites = Vec::new();
    for (k, s) in &rn.ip.sites {
        sites.push(jobj! {
            "key" => J::s(k.clone()), "inst" => J::s(s.inst.clone()), "kind" => J::s(s.kind.clone()), "msg" => J::s(s.msg.clone()), "shape" => J::s(s.shape.clone()),
            "site" => J::s(s.site.clone()), "visits" => J::i(s.visits as i128), "violated" => J::Bool(s.violated),
            "witness" => J::s(s.witness.clone()), "roots" => J::arr_s(s.roots.iter().cloned()),
            "ctxs" => J::arr_s(s.ctxs.iter().cloned()),
        });
    }
    let mut unm = J::obj();
    for (k, n) in &rn.ip.unmodelled {
        unm.set(k, J::i(*n as i128));
    }
    let mut uns = J::obj();
    for (k, n) in &rn.ip.unsupported {
        uns.set(k, J::i(*n as i128));
    }
    let mut leaks = J::obj();
    for (k, v) in &rn.ip.leaks {
        leaks.set(k, J::s(v.clone()));
    }
    let mut prof = J::obj();
    for (k, (n, t)) in &rn.ip.prof {
        prof.set(k, J::Arr(vec![J::i(*n as i128), J::i((*t / 1_000_000) as i128)]));
    }
    jobj! {
        "prof" => prof,
        "jobs" => J::Arr(out_jobs),
        "sites" => J::Arr(sites),
        "unmodelled" => unm,
        "unsupported" => uns,
        "leaks" => leaks,
        "steps" => J::i(rn.ip.steps as i128),
        "memo_hits" => J::i(rn.ip.memo_hits as i128),
        "pmemo_hits" => J::i(rn.ip.pmemo_hits as i128),
        "instances_analysed" => J::i(rn.ip.bodies.len() as i128),
        "roots_available" => J::arr_s(rn.names.iter().cloned()),
    }
    .to_string()
}
