// Abstract interpreter over monomorphic MIR: core machinery (bodies, types, constants, places).
use super::cfg::{self, Cfg};
use super::ops::{self, AtomDef, Atoms};
use super::state::*;
use super::val::*;
use crate::facts::{inst_name, span_str};
use rustc_abi::{FieldIdx, VariantIdx};
use rustc_hir::def_id::DefId;
use rustc_middle::mir::{self, BasicBlock, Local, Operand, Place, ProjectionElem};
use rustc_middle::ty::{self, EarlyBinder, Instance, Ty, TyCtxt, TypingEnv};
use rustc_span::def_id::LOCAL_CRATE;
use std::collections::{BTreeMap, BTreeSet, HashMap};
use std::rc::Rc;

pub struct BodyInfo<'tcx> {
    pub inst: Instance<'tcx>,
    pub name: String,
    /// last path segment of the definition (for call paths)
    pub short: String,
    pub body: mir::Body<'tcx>,
    pub cfg: Cfg,
    pub scalar: bool,
    pub ret_bool: bool,
    pub local: bool,
    /// pure function of its (dereferenced) arguments: shared references / integers in, no references out
    pub pure_args: bool,
}

#[derive(Clone, Debug)]
pub struct Site {
    pub inst: String,
    pub kind: String,
    pub msg: String,
    /// source-text-free description of an Assert obligation (operand types / constants, indexed container)
    pub shape: String,
    pub site: String,
    pub visits: u64,
    pub violated: bool,
    pub witness: String,
    pub roots: BTreeSet<String>,
    /// compact call paths (function names without generics) under which the site was violated
    pub ctxs: BTreeSet<String>,
}

#[derive(Clone, Debug)]
pub struct Probe {
    pub what: String,
    pub inst: String,
    pub ctx: String,
    pub data: BTreeMap<String, String>,
}

pub struct Interp<'tcx> {
    pub tcx: TyCtxt<'tcx>,
    pub env: TypingEnv<'tcx>,
    pub bodies: HashMap<Instance<'tcx>, Rc<BodyInfo<'tcx>>>,
    pub stack: Vec<Rc<BodyInfo<'tcx>>>,
    pub atom_defs: Rc<Vec<AtomDef>>,
    pub region_depth: u32,
    pub region_start: Vec<usize>,
    pub sites: BTreeMap<String, Site>,
    pub registered: BTreeSet<String>,
    pub steps: u64,
    pub budget: u64,
    pub over_budget: bool,
    pub unmodelled: BTreeMap<String, u64>,
    pub unsupported: BTreeMap<String, u64>,
    pub cur_root: String,
    pub statics: Vec<Val>,
    pub static_cache: HashMap<String, u32>,
    pub closure_tys: Vec<Ty<'tcx>>,
    pub probes: Vec<Probe>,
    pub call_trace: BTreeMap<String, u64>,
    pub xof_counter: u32,
    pub xof_reads: HashMap<u32, u32>,
    pub rng_mode: u8, // 0 = both outcomes, 1 = force Ok, 2 = force Err
    pub leaks: BTreeMap<String, String>,
    pub taint_track: bool,
    pub memo: HashMap<(Instance<'tcx>, Vec<(i128, i128, u8)>), (Vec<Val>, Vec<(String, Vec<String>)>)>,
    pub memo_hits: u64,
    pub pmemo: HashMap<Instance<'tcx>, Vec<(Vec<Val>, Vec<Val>, Vec<(String, Vec<String>)>, Vec<Probe>, Vec<Val>)>>,
    pub pmemo_hits: u64,
    pub prof: BTreeMap<String, (u64, u128)>,
    pub trace_on: bool,
    pub trace_pat: String,
    pub reject_witness: Vec<Val>,
    /// per active call: intervals of integer locals when their storage ends (only for probed calls)
    pub scope_end: Vec<Option<std::collections::BTreeMap<u32, (i128, i128)>>>,
    pub max_depth: usize,
    pub pending_origin: Option<(u32, Ptr, u32)>,
    pub pending_bdef: Option<(u32, BoolDef)>,
    pub pending_discr: Option<(u32, Ptr)>,
    pub viol_events: u64,
    pub fast_from_fn: bool,
    pub probe_pats: Vec<String>,
    pub moduli: Rc<Vec<i128>>,
    /// loop peeling: (function name substring, iterations analysed separately before the loop is joined)
    pub peel: Vec<(String, u32)>,
    pub loopcut: Vec<(String, u32)>,
    /// callee name patterns whose integer results are tracked as path facts
    pub track_ret: Vec<String>,
    pub fact_gen: u64,
    /// key of the fact stashed as `$ret` by the latest return
    pub ret_fact_key: Option<Rc<str>>,
    pub lin_tier: bool,
    pub prod_atoms: HashMap<(AtomId, AtomId), AtomId>,
    pub atomize: Vec<String>,
    pub atomize_count: HashMap<String, usize>,
    pub ident_pats: Vec<String>,
    pub dump_args_pats: Vec<String>,
    pub dump_args_count: HashMap<String, u32>,
    pub ret_key: u8,
    pub next_atom: usize,
    pub cur_bb: usize,
    pub cur_call_bb: usize,
    pub atom_names: HashMap<AtomId, String>,
    pub last_atom_names: HashMap<AtomId, String>,
    pub input_names: Vec<String>,
}

pub fn ity_of<'tcx>(t: Ty<'tcx>) -> Option<ITy> {
    Some(match t.kind() {
        ty::Bool => ITy::BOOL,
        ty::Char => ITy::U32,
        ty::Int(i) => ITy { bits: i.bit_width().unwrap_or(64) as u8, signed: true },
        ty::Uint(u) => ITy { bits: u.bit_width().unwrap_or(64) as u8, signed: false },
        _ => return None,
    })
}

impl<'tcx> Interp<'tcx> {
    pub fn new(tcx: TyCtxt<'tcx>) -> Interp<'tcx> {
        Interp {
            tcx,
            env: TypingEnv::fully_monomorphized(),
            bodies: HashMap::new(),
            stack: Vec::new(),
            atom_defs: Rc::new(Vec::new()),
            region_depth: 0,
            region_start: Vec::new(),
            sites: BTreeMap::new(),
            registered: BTreeSet::new(),
            steps: 0,
            budget: 3_000_000_000,
            over_budget: false,
            unmodelled: BTreeMap::new(),
            unsupported: BTreeMap::new(),
            cur_root: String::new(),
            statics: Vec::new(),
            static_cache: HashMap::new(),
            closure_tys: Vec::new(),
            probes: Vec::new(),
            call_trace: BTreeMap::new(),
            xof_counter: 0,
            xof_reads: HashMap::new(),
            rng_mode: 0,
            leaks: BTreeMap::new(),
            taint_track: false,
            memo: HashMap::new(),
            memo_hits: 0,
            pmemo: HashMap::new(),
            pmemo_hits: 0,
            prof: BTreeMap::new(),
            trace_on: std::env::var("VERIF_TRACE").is_ok(),
            trace_pat: std::env::var("VERIF_TRACE").unwrap_or_default(),
            reject_witness: Vec::new(),
            scope_end: Vec::new(),
            max_depth: 0,
            pending_origin: None,
            pending_bdef: None,
            pending_discr: None,
            viol_events: 0,
            fast_from_fn: false,
            probe_pats: Vec::new(),
            moduli: Rc::new(Vec::new()),
            peel: Vec::new(),
            loopcut: Vec::new(),
            track_ret: Vec::new(),
            fact_gen: 0,
            ret_fact_key: None,
            lin_tier: false,
            prod_atoms: HashMap::new(),
            atomize: Vec::new(),
            atomize_count: HashMap::new(),
            ident_pats: Vec::new(),
            dump_args_pats: Vec::new(),
            dump_args_count: HashMap::new(),
            ret_key: 3,
            next_atom: 0,
            cur_bb: 0,
            cur_call_bb: 0,
            atom_names: HashMap::new(),
            last_atom_names: HashMap::new(),
            input_names: Vec::new(),
        }
    }

    pub fn unsupported(&mut self, what: &str) {
        *self.unsupported.entry(what.to_string()).or_insert(0) += 1;
    }

    // ---- bodies ---------------------------------------------------------------------------

    pub fn body_of(&mut self, inst: Instance<'tcx>) -> Option<Rc<BodyInfo<'tcx>>> {
        if let Some(b) = self.bodies.get(&inst) {
            return Some(b.clone());
        }
        match inst.def {
            ty::InstanceKind::Item(did) => {
                if !self.tcx.is_mir_available(did) {
                    return None;
                }
            }
            ty::InstanceKind::ClosureOnceShim { .. } | ty::InstanceKind::ReifyShim(..) | ty::InstanceKind::FnPtrShim(..) => {}
            _ => return None,
        }
        let raw = self.tcx.instance_mir(inst.def);
        let body = inst.instantiate_mir_and_normalize_erasing_regions(self.tcx, self.env, EarlyBinder::bind(raw.clone()));
        let cfg = cfg::build(&body);
        let name = inst_name(self.tcx, inst);
        let mut scalar = body.arg_count > 0;
        for l in body.args_iter() {
            if ity_of(body.local_decls[l].ty).is_none() {
                scalar = false;
            }
        }
        let rt = body.return_ty();
        let ret_scalar = match rt.kind() {
            ty::Tuple(ts) => ts.iter().all(|t| ity_of(t).is_some()),
            _ => ity_of(rt).is_some() || is_result_of_int(rt),
        };
        scalar = scalar && ret_scalar && !self.tcx.is_closure_like(inst.def_id());
        let mut pure_args = !scalar && !rt.is_bool() && !self.tcx.is_closure_like(inst.def_id()) && body.arg_count > 0 && !has_ref(rt);
        for l in body.args_iter() {
            let t = body.local_decls[l].ty;
            let ok = match t.kind() {
                ty::Ref(_, inner, m) => !m.is_mut() && !has_ref(*inner) && !matches!(inner.kind(), ty::Param(_) | ty::Dynamic(..)),
                _ => !has_ref(t) && !matches!(t.kind(), ty::Param(_)),
            };
            if !ok {
                pure_args = false;
            }
        }
        let dn = crate::facts::def_name(self.tcx, inst.def_id());
        let short = dn.rsplit("::").next().unwrap_or(&dn).to_string();
        let info = Rc::new(BodyInfo {
            inst,
            name,
            short,
            pure_args,
            ret_bool: rt.is_bool(),
            body,
            cfg,
            scalar,
            local: inst.def_id().krate == LOCAL_CRATE,
        });
        self.register_sites(&info);
        self.bodies.insert(inst, info.clone());
        Some(info)
    }

    // ---- types ----------------------------------------------------------------------------

    pub fn array_len(&self, c: ty::Const<'tcx>) -> Option<u64> {
        c.try_to_target_usize(self.tcx)
    }

    /// most general value of a type
    pub fn top_of(&mut self, t: Ty<'tcx>, depth: u32) -> Val {
        if depth > 6 {
            return Val::Top;
        }
        if let Some(it) = ity_of(t) {
            return Val::Int(IntV::top(it));
        }
        match t.kind() {
            ty::Array(et, n) => match self.array_len(*n) {
                Some(n) => {
                    let e = self.top_of(*et, depth + 1);
                    Val::Arr(Rc::new(ArrV::uniform(e, n)))
                }
                None => Val::Top,
            },
            ty::Tuple(ts) => Val::Tuple(Rc::new(ts.iter().map(|x| self.top_of(x, depth + 1)).collect())),
            ty::Adt(adt, args) => {
                if adt.is_struct() {
                    let fs: Vec<Val> = adt.non_enum_variant().fields.iter().map(|f| {
                        let ft = self.field_ty(f, args);
                        self.top_of(ft, depth + 1)
                    }).collect();
                    Val::Tuple(Rc::new(fs))
                } else if adt.is_enum() {
                    let mut m = BTreeMap::new();
                    for (vi, v) in adt.variants().iter_enumerated() {
                        let fs: Vec<Val> = v.fields.iter().map(|f| {
                            let ft = self.field_ty(f, args);
                            self.top_of(ft, depth + 1)
                        }).collect();
                        m.insert(vi.as_u32(), fs);
                    }
                    Val::Enum(Rc::new(EnumV { variants: m }))
                } else {
                    Val::Top
                }
            }
            ty::Str => Val::Opq(Opaque::Str),
            ty::Ref(_, inner, _) if inner.is_str() => Val::Opq(Opaque::Str),
            ty::FnDef(..) | ty::Closure(..) => self.shape_of(t, 0),
            _ => Val::Top,
        }
    }

    pub fn field_ty(&self, f: &ty::FieldDef, args: ty::GenericArgsRef<'tcx>) -> Ty<'tcx> {
        let t = f.ty(self.tcx, args);
        self.tcx.normalize_erasing_regions(self.env, rustc_middle::ty::Unnormalized::new_wip(t))
    }

    /// aggregate of the right shape filled with Bot (for field-wise initialisation)
    pub fn shape_of(&mut self, t: Ty<'tcx>, depth: u32) -> Val {
        if depth > 6 {
            return Val::Bot;
        }
        match t.kind() {
            ty::Array(et, n) => match self.array_len(*n) {
                Some(n) => {
                    let e = self.shape_of(*et, depth + 1);
                    Val::Arr(Rc::new(ArrV::uniform(e, n)))
                }
                None => Val::Bot,
            },
            ty::Tuple(ts) => Val::Tuple(Rc::new(ts.iter().map(|x| self.shape_of(x, depth + 1)).collect())),
            ty::Adt(adt, args) if adt.is_struct() => {
                let fs: Vec<Val> = adt.non_enum_variant().fields.iter().map(|f| {
                    let ft = self.field_ty(f, args);
                    self.shape_of(ft, depth + 1)
                }).collect();
                Val::Tuple(Rc::new(fs))
            }
            ty::Closure(_, args) => {
                let ups = args.as_closure().upvar_tys();
                Val::Tuple(Rc::new(ups.iter().map(|x| self.shape_of(x, depth + 1)).collect()))
            }
            ty::FnDef(..) => Val::unit(),
            _ => Val::Bot,
        }
    }

    // ---- constants ------------------------------------------------------------------------

    pub fn const_val(&mut self, c: &mir::ConstOperand<'tcx>) -> Val {
        let ty = c.const_.ty();
        let ev = c.const_.eval(self.tcx, self.env, c.span);
        match ev {
            Ok(cv) => self.val_of_constvalue(cv, ty),
            Err(_) => {
                self.unsupported("const-eval-failed");
                self.top_of(ty, 0)
            }
        }
    }

    pub fn val_of_constvalue(&mut self, cv: mir::ConstValue, ty: Ty<'tcx>) -> Val {
        use mir::ConstValue;
        match cv {
            ConstValue::ZeroSized => self.shape_of(ty, 0).replace_bot_unit(),
            ConstValue::Scalar(s) => self.val_of_scalar(s, ty),
            ConstValue::Slice { .. } => {
                if let ty::Ref(_, inner, _) = ty.kind() {
                    if inner.is_str() {
                        return Val::Opq(Opaque::Str);
                    }
                }
                self.unsupported("const-slice");
                Val::Top
            }
            ConstValue::Indirect { alloc_id, offset } => {
                let ga = self.tcx.global_alloc(alloc_id);
                match ga {
                    mir::interpret::GlobalAlloc::Memory(a) => self.val_from_alloc(a.inner(), offset.bytes(), ty),
                    _ => {
                        self.unsupported("const-indirect-nonmemory");
                        self.top_of(ty, 0)
                    }
                }
            }
        }
    }

    fn val_of_scalar(&mut self, s: mir::interpret::Scalar, ty: Ty<'tcx>) -> Val {
        use mir::interpret::Scalar;
        match s {
            Scalar::Int(si) => {
                if let Some(it) = ity_of(ty) {
                    let bits = si.to_bits(si.size());
                    let v = if it.signed { it.wrap(bits as i128) } else { bits as i128 };
                    Val::konst(v, it)
                } else {
                    self.top_of(ty, 0)
                }
            }
            Scalar::Ptr(p, _) => {
                let (prov, off) = p.into_raw_parts();
                let alloc_id = prov.alloc_id();
                let pointee = match ty.kind() {
                    ty::Ref(_, t, _) => *t,
                    ty::RawPtr(t, _) => *t,
                    _ => {
                        self.unsupported("const-ptr-nonref");
                        return Val::Top;
                    }
                };
                let key = format!("{:?}+{}:{:?}", alloc_id, off.bytes(), pointee);
                if let Some(ix) = self.static_cache.get(&key) {
                    return Val::Ref(Ptr::local(STATICS, *ix));
                }
                let v = match self.tcx.global_alloc(alloc_id) {
                    mir::interpret::GlobalAlloc::Memory(a) => self.val_from_alloc(a.inner(), off.bytes(), pointee),
                    mir::interpret::GlobalAlloc::Static(did) => match self.tcx.eval_static_initializer(did) {
                        Ok(a) => self.val_from_alloc(a.inner(), off.bytes(), pointee),
                        Err(_) => self.top_of(pointee, 0),
                    },
                    _ => {
                        self.unsupported("const-ptr-alloc-kind");
                        self.top_of(pointee, 0)
                    }
                };
                let ix = self.statics.len() as u32;
                self.statics.push(v);
                self.static_cache.insert(key, ix);
                Val::Ref(Ptr::local(STATICS, ix))
            }
        }
    }

    fn val_from_alloc(&mut self, alloc: &mir::interpret::Allocation, off: u64, ty: Ty<'tcx>) -> Val {
        let Ok(layout) = self.tcx.layout_of(self.env.as_query_input(ty)) else { return self.top_of(ty, 0) };
        if let Some(it) = ity_of(ty) {
            let size = layout.size.bytes() as usize;
            let bytes = alloc.inspect_with_uninit_and_ptr_outside_interpreter(off as usize..off as usize + size);
            let mut v: u128 = 0;
            for (i, b) in bytes.iter().enumerate() {
                v |= (*b as u128) << (8 * i);
            }
            let x = if it.signed { it.wrap(v as i128) } else { v as i128 };
            return Val::konst(x, it);
        }
        match ty.kind() {
            ty::Array(et, n) => {
                let Some(n) = self.array_len(*n) else { return Val::Top };
                let Ok(el) = self.tcx.layout_of(self.env.as_query_input(*et)) else { return Val::Top };
                let esz = el.size.bytes();
                let mut arr = ArrV::uniform(Val::Bot, n);
                for i in 0..n {
                    let v = self.val_from_alloc(alloc, off + i * esz, *et);
                    arr.over.insert(i, v);
                }
                arr.compress();
                Val::Arr(Rc::new(arr))
            }
            ty::Tuple(ts) => {
                let mut fs = Vec::new();
                for (i, t) in ts.iter().enumerate() {
                    let fo = layout.fields.offset(i).bytes();
                    fs.push(self.val_from_alloc(alloc, off + fo, t));
                }
                Val::Tuple(Rc::new(fs))
            }
            ty::Adt(adt, args) if adt.is_struct() => {
                let mut fs = Vec::new();
                for (i, f) in adt.non_enum_variant().fields.iter().enumerate() {
                    let fo = layout.fields.offset(i).bytes();
                    let ft = self.field_ty(f, args);
                    fs.push(self.val_from_alloc(alloc, off + fo, ft));
                }
                Val::Tuple(Rc::new(fs))
            }
            ty::Ref(_, inner, _) => {
                // pointer stored in the allocation
                let psz = self.tcx.data_layout.pointer_size().bytes() as usize;
                let prov = alloc.provenance().ptrs().get(&rustc_abi::Size::from_bytes(off));
                match prov {
                    Some(p) => {
                        let bytes = alloc.inspect_with_uninit_and_ptr_outside_interpreter(off as usize..off as usize + psz);
                        let mut o: u64 = 0;
                        for (i, b) in bytes.iter().enumerate() {
                            o |= (*b as u64) << (8 * i);
                        }
                        let aid = p.alloc_id();
                        if inner.is_str() {
                            return Val::Opq(Opaque::Str);
                        }
                        match self.tcx.global_alloc(aid) {
                            mir::interpret::GlobalAlloc::Memory(a) => {
                                if let ty::Slice(et) = inner.kind() {
                                    // fat pointer: length follows
                                    let lb = alloc.inspect_with_uninit_and_ptr_outside_interpreter(off as usize + psz..off as usize + 2 * psz);
                                    let mut len: u64 = 0;
                                    for (i, b) in lb.iter().enumerate() {
                                        len |= (*b as u64) << (8 * i);
                                    }
                                    let aty = Ty::new_array(self.tcx, *et, len);
                                    let v = self.val_from_alloc(a.inner(), o, aty);
                                    let ix = self.statics.len() as u32;
                                    self.statics.push(v);
                                    return Val::Slice { base: Ptr::local(STATICS, ix), start: IntV::konst(0, ITy::USIZE), len: IntV::konst(len as i128, ITy::USIZE) };
                                }
                                let v = self.val_from_alloc(a.inner(), o, *inner);
                                let ix = self.statics.len() as u32;
                                self.statics.push(v);
                                Val::Ref(Ptr::local(STATICS, ix))
                            }
                            _ => Val::Top,
                        }
                    }
                    None => Val::Top,
                }
            }
            _ => {
                self.unsupported("alloc-read-type");
                self.top_of(ty, 0)
            }
        }
    }

    // ---- atoms ----------------------------------------------------------------------------

    pub fn atoms<'a>(&self, st: &'a State) -> Atoms {
        Atoms { itv: st.atoms.clone(), defs: self.atom_defs.clone(), moduli: self.moduli.clone() }
    }

    pub fn fresh_atom(&mut self, st: &mut State, lo: i128, hi: i128, def: Option<Rc<Lin>>) -> AtomId {
        // ids are never reused while a scalar region is alive, even across forked states
        let idu = self.next_atom.max(st.atoms.len());
        self.next_atom = idu + 1;
        let sa = Rc::make_mut(&mut st.atoms);
        if sa.len() < idu {
            sa.resize(idu, (i128::MIN, i128::MAX));
        }
        let id = idu as AtomId;
        sa.push((lo, hi));
        let defs = Rc::make_mut(&mut self.atom_defs);
        if defs.len() <= id as usize {
            defs.resize(id as usize + 1, AtomDef { def: None });
        }
        defs[id as usize] = AtomDef { def };
        id
    }

}

pub fn has_ref<'tcx>(t: Ty<'tcx>) -> bool {
    t.walk().any(|a| match a.kind() {
        ty::GenericArgKind::Type(x) => matches!(x.kind(), ty::Ref(..) | ty::RawPtr(..) | ty::FnPtr(..) | ty::Closure(..) | ty::Dynamic(..) | ty::Param(_)),
        _ => false,
    })
}

pub fn is_result_of_int<'tcx>(t: Ty<'tcx>) -> bool {
    if let ty::Adt(adt, args) = t.kind() {
        if adt.is_enum() && adt.variants().len() == 2 {
            if let Some(a0) = args.types().next() {
                return ity_of(a0).is_some();
            }
        }
    }
    false
}

impl Val {
    pub fn replace_bot_unit(self) -> Val {
        match self {
            Val::Bot => Val::unit(),
            other => other,
        }
    }
}

// re-exports for sibling modules
pub use rustc_middle::mir::TerminatorKind as TK;
pub type Bb = BasicBlock;
pub type Loc = Local;
pub fn _unused(_: FieldIdx, _: VariantIdx, _: DefId, _: &Operand<'_>, _: &Place<'_>, _: &ProjectionElem<(), ()>) {}
pub fn site_str<'tcx>(tcx: TyCtxt<'tcx>, sp: rustc_span::Span) -> String {
    span_str(tcx, sp)
}
