// Statement / terminator transfer functions, structured exploration with joins at post-dominators,
// loop handling (concrete unrolling, widening), obligations.
use super::interp::*;
use super::ops::{self, Arith, Cmp};
use super::state::*;
use super::val::*;
use rustc_middle::mir::{self, BinOp, CastKind, Operand, Place, ProjectionElem, Rvalue, StatementKind, TerminatorKind, UnOp};
use rustc_middle::ty::{self, Ty};
use std::collections::BTreeSet;
use std::rc::Rc;

#[derive(Clone, Copy, Debug, PartialEq, Eq, PartialOrd, Ord)]
pub enum Tgt {
    Block(usize),
    Return(u8), // 0 = returns false, 1 = returns true, 2 = anything else
}

pub struct Outcomes {
    pub at: Vec<(Tgt, State)>,
}

impl Outcomes {
    pub fn new() -> Outcomes {
        Outcomes { at: Vec::new() }
    }
    pub fn add(&mut self, t: Tgt, s: State) {
        for e in self.at.iter_mut() {
            if e.0 == t {
                e.1 = e.1.join(&s);
                return;
            }
        }
        self.at.push((t, s));
    }
    pub fn merge(&mut self, o: Outcomes) {
        for (t, s) in o.at {
            self.add(t, s);
        }
    }
    pub fn take(&mut self, t: Tgt) -> Option<State> {
        let i = self.at.iter().position(|e| e.0 == t)?;
        Some(self.at.remove(i).1)
    }
}

/// A place resolved against the abstract memory.
pub enum PlaceRef {
    Mem(Ptr),
    /// view into a slice: element `i` lives at base[start + i]
    SliceView { base: Ptr, start: IntV, len: IntV },
    Unknown,
}

impl<'tcx> Interp<'tcx> {
    pub fn fi(&self) -> u32 {
        self.stack.len() as u32 // frames[0] holds the synthetic root inputs
    }

    pub fn read_ptr(&self, st: &State, p: &Ptr) -> Val {
        if p.frame == STATICS {
            let tmp = State { frames: vec![FrameSt { locals: self.statics.clone(), vers: vec![], bdefs: vec![], origin: vec![], discr: vec![], callres: vec![] }], atoms: Rc::new(vec![]), rng_count: 0, facts: Rc::new(Default::default()) };
            return tmp.read(&Ptr { frame: 0, local: p.local, proj: p.proj.clone() });
        }
        st.read(p)
    }

    pub fn write_ptr(&mut self, st: &mut State, p: &Ptr, v: Val) {
        if p.frame == STATICS {
            return;
        }
        // materialise the shape of an uninitialised aggregate before a component write
        if !p.proj.is_empty() {
            if let Some(f) = st.frames.get(p.frame as usize) {
                if matches!(f.locals.get(p.local as usize), Some(Val::Bot)) && p.frame >= 1 {
                    let depth = p.frame as usize - 1;
                    if let Some(bi) = self.stack.get(depth).cloned() {
                        if (p.local as usize) < bi.body.local_decls.len() {
                            let t = bi.body.local_decls[mir::Local::from_u32(p.local)].ty;
                            let sh = self.shape_of(t, 0);
                            st.frames[p.frame as usize].locals[p.local as usize] = sh;
                        }
                    }
                }
            }
        }
        st.write(p, v);
    }

    // ---- places ---------------------------------------------------------------------------

    pub fn resolve_place(&mut self, st: &State, place: &Place<'tcx>) -> PlaceRef {
        let fi = self.fi();
        let mut cur = PlaceRef::Mem(Ptr::local(fi, place.local.as_u32()));
        for elem in place.projection.iter() {
            cur = match (cur, elem) {
                (PlaceRef::Unknown, _) => return PlaceRef::Unknown,
                (PlaceRef::Mem(p), ProjectionElem::Deref) => match self.read_ptr(st, &p) {
                    Val::Ref(q) => PlaceRef::Mem(q),
                    Val::Slice { base, start, len } => PlaceRef::SliceView { base, start, len },
                    _ => return PlaceRef::Unknown,
                },
                (PlaceRef::Mem(p), ProjectionElem::Field(f, _)) => PlaceRef::Mem(p.push(PElem::Field(f.as_u32()))),
                (PlaceRef::Mem(p), ProjectionElem::Downcast(_, v)) => PlaceRef::Mem(p.push(PElem::Downcast(v.as_u32()))),
                (PlaceRef::Mem(p), ProjectionElem::Index(l)) => {
                    let iv = self.read_local_int(st, l.as_u32());
                    if self.taint_track {
                        if let Some(i) = &iv {
                            if i.taint != 0 && i.is_const().is_none() {
                                self.leak("index", "array index depends on tainted data");
                            }
                        }
                    }
                    match iv {
                        Some(i) => PlaceRef::Mem(p.push(idx_elem(i.lo, i.hi))),
                        None => return PlaceRef::Unknown,
                    }
                }
                (PlaceRef::Mem(p), ProjectionElem::ConstantIndex { offset, from_end: false, .. }) => PlaceRef::Mem(p.push(PElem::Index(offset as i128))),
                (PlaceRef::SliceView { base, start, .. }, ProjectionElem::Index(l)) => {
                    let iv = self.read_local_int(st, l.as_u32());
                    if self.taint_track {
                        if let Some(i) = &iv {
                            if i.taint != 0 && i.is_const().is_none() {
                                self.leak("index", "slice index depends on tainted data");
                            }
                        }
                    }
                    match iv {
                        Some(i) => PlaceRef::Mem(base.push(idx_elem(start.lo.saturating_add(i.lo), start.hi.saturating_add(i.hi)))),
                        None => return PlaceRef::Unknown,
                    }
                }
                (PlaceRef::SliceView { base, start, .. }, ProjectionElem::ConstantIndex { offset, from_end: false, .. }) => {
                    PlaceRef::Mem(base.push(idx_elem(start.lo + offset as i128, start.hi + offset as i128)))
                }
                (c, ProjectionElem::OpaqueCast(_)) => c,
                _ => {
                    self.unsupported("place-projection");
                    return PlaceRef::Unknown;
                }
            };
        }
        cur
    }

    fn read_local_int(&self, st: &State, l: u32) -> Option<IntV> {
        let fi = self.fi() as usize;
        match st.frames[fi].locals.get(l as usize) {
            Some(Val::Int(i)) => self.atoms(st).concretize(i),
            _ => None,
        }
    }

    pub fn read_place(&mut self, st: &State, place: &Place<'tcx>) -> Val {
        match self.resolve_place(st, place) {
            PlaceRef::Mem(p) => {
                let v = self.read_ptr(st, &p);
                self.conc(st, v)
            }
            PlaceRef::SliceView { base, start, len } => {
                // a sized array read through a sub-slice view is materialised
                let t = place.ty(&self.stack.last().unwrap().body, self.tcx).ty;
                if let ty::Array(_, n) = t.kind() {
                    if let (Some(n), Some(s0)) = (self.array_len(*n), start.is_const()) {
                        let mut arr = ArrV::uniform(Val::Bot, n);
                        for i in 0..n {
                            let v = self.read_ptr(st, &base.push(PElem::Index(s0 + i as i128)));
                            arr.over.insert(i, v);
                        }
                        arr.compress();
                        arr.tag = self.source_tag(st, &base, s0, n as i128).map(|t| Rc::from(t.as_str()));
                        return Val::Arr(Rc::new(arr));
                    }
                    return self.top_of(t, 0);
                }
                Val::Slice { base, start, len }
            }
            PlaceRef::Unknown => {
                let t = place.ty(&self.stack.last().unwrap().body, self.tcx).ty;
                self.top_of(t, 0)
            }
        }
    }

    pub fn conc(&self, st: &State, v: Val) -> Val {
        match v {
            Val::Int(i) => match self.atoms(st).concretize(&i) {
                Some(c) => Val::Int(c),
                None => Val::Int(i),
            },
            other => other,
        }
    }

    pub fn write_place(&mut self, st: &mut State, place: &Place<'tcx>, v: Val) {
        match self.resolve_place(st, place) {
            PlaceRef::Mem(p) => self.write_ptr(st, &p, v),
            PlaceRef::SliceView { .. } | PlaceRef::Unknown => {
                self.unsupported("write-to-unknown-place");
            }
        }
    }

    pub fn eval_operand(&mut self, st: &State, op: &Operand<'tcx>) -> Val {
        match op {
            Operand::Copy(p) | Operand::Move(p) => self.read_place(st, p),
            Operand::Constant(c) => self.const_val(c),
            _ => {
                self.unsupported("operand-kind");
                Val::Top
            }
        }
    }

    fn op_src(&self, st: &State, op: &Operand<'tcx>, v: &Val) -> Option<Src> {
        match op {
            Operand::Copy(p) | Operand::Move(p) if p.projection.is_empty() => {
                let fi = self.fi() as usize;
                Some(Src::Local(p.local.as_u32(), st.frames[fi].vers[p.local.as_usize()]))
            }
            _ => v.as_int().map(|i| Src::Konst(i.clone())),
        }
    }

    /// LIN tier: the product of two values with linear forms is a form over PRODUCT ATOMS
    /// (x_i * y_j named and interned), exact when both forms are exact, else modulo the common modulus.
    fn bilinear_product(&mut self, st: &mut State, x: &IntV, y: &IntV, res: Val) -> Val {
        let (Some(lx), Some(ly)) = (x.lin.clone(), y.lin.clone()) else { return res };
        if lx.terms.is_empty() || ly.terms.is_empty() || lx.terms.len() * ly.terms.len() > 64 {
            return res;
        }
        let m = match (lx.m, ly.m) {
            (0, 0) => 0,
            (a, 0) | (0, a) => a,
            (a, b) if a == b => a,
            _ => return res,
        };
        let red = |v: i128| if m > 0 { v.rem_euclid(m) } else { v };
        let mut terms: Vec<(AtomId, i128)> = Vec::new();
        for (a, ca) in lx.terms.iter() {
            for (b, cb) in ly.terms.iter() {
                let key = if a <= b { (*a, *b) } else { (*b, *a) };
                let p = match self.prod_atoms.get(&key) {
                    Some(p) => *p,
                    None => {
                        let (alo, ahi) = st.atoms.get(*a as usize).cloned().unwrap_or((i128::MIN, i128::MAX));
                        let (blo, bhi) = st.atoms.get(*b as usize).cloned().unwrap_or((i128::MIN, i128::MAX));
                        let c = [alo.saturating_mul(blo), alo.saturating_mul(bhi), ahi.saturating_mul(blo), ahi.saturating_mul(bhi)];
                        let p = self.fresh_atom(st, *c.iter().min().unwrap(), *c.iter().max().unwrap(), None);
                        let na = self.atom_names.get(a).cloned().unwrap_or_else(|| format!("a{}", a));
                        let nb = self.atom_names.get(b).cloned().unwrap_or_else(|| format!("a{}", b));
                        self.atom_names.insert(p, format!("({}*{})", na, nb));
                        self.prod_atoms.insert(key, p);
                        p
                    }
                };
                let Some(c) = red(*ca).checked_mul(red(*cb)) else { return res };
                terms.push((p, red(c)));
            }
        }
        // cross terms with the constants
        for (a, ca) in lx.terms.iter() {
            if ly.d != 0 {
                let Some(c) = red(*ca).checked_mul(red(ly.d)) else { return res };
                terms.push((*a, red(c)));
            }
        }
        for (b, cb) in ly.terms.iter() {
            if lx.d != 0 {
                let Some(c) = red(*cb).checked_mul(red(lx.d)) else { return res };
                terms.push((*b, red(c)));
            }
        }
        let Some(d) = red(lx.d).checked_mul(red(ly.d)) else { return res };
        let Some(l) = Lin::from_parts(m, red(d), terms) else { return res };
        let attach = |v: &Val| -> Val {
            match v {
                Val::Int(i) if i.lin.is_none() || i.lin.as_ref().map(|q| q.terms.is_empty() && q.m != 0).unwrap_or(false) => {
                    let mut j = i.clone();
                    j.lin = Some(Rc::new(l.clone()));
                    Val::Int(j)
                }
                other => other.clone(),
            }
        };
        match &res {
            Val::Int(_) => attach(&res),
            Val::Tuple(t) if t.len() == 2 => Val::Tuple(Rc::new(vec![attach(&t[0]), t[1].clone()])),
            _ => res,
        }
    }

    // ---- rvalues --------------------------------------------------------------------------

    fn int_binop(&mut self, st: &State, op: BinOp, a: &IntV, b: &IntV, rty: Ty<'tcx>) -> Val {
        let at = self.atoms(st);
        let ty = a.ty;
        let cmpop = match op {
            BinOp::Eq => Some(Cmp::Eq),
            BinOp::Ne => Some(Cmp::Ne),
            BinOp::Lt => Some(Cmp::Lt),
            BinOp::Le => Some(Cmp::Le),
            BinOp::Gt => Some(Cmp::Gt),
            BinOp::Ge => Some(Cmp::Ge),
            _ => None,
        };
        if let Some(c) = cmpop {
            let t = a.taint | b.taint;
            return Val::Int(match ops::compare(c, a, b) {
                Some(r) => IntV::boolean(r).with_taint(t),
                None => IntV::any_bool().with_taint(t),
            });
        }
        match op {
            BinOp::Add | BinOp::AddUnchecked => Val::Int(ops::arith(Arith::Add, a, b, ty, true, &at).0),
            BinOp::Sub | BinOp::SubUnchecked => Val::Int(ops::arith(Arith::Sub, a, b, ty, true, &at).0),
            BinOp::Mul | BinOp::MulUnchecked => Val::Int(ops::arith(Arith::Mul, a, b, ty, true, &at).0),
            BinOp::AddWithOverflow | BinOp::SubWithOverflow | BinOp::MulWithOverflow => {
                let k = match op {
                    BinOp::AddWithOverflow => Arith::Add,
                    BinOp::SubWithOverflow => Arith::Sub,
                    _ => Arith::Mul,
                };
                let (v, may) = ops::arith(k, a, b, ty, false, &at);
                // definitely overflows when the exact result interval is entirely outside the type
                let (w, _) = ops::arith(k, &a.plain(), &b.plain(), ITy::I128, true, &at);
                let always = w.hi < ty.min() || w.lo > ty.max();
                let flag = if !may { IntV::boolean(false) } else if always { IntV::boolean(true) } else { IntV::any_bool() };
                Val::Tuple(Rc::new(vec![Val::Int(v), Val::Int(flag.with_taint(a.taint | b.taint))]))
            }
            BinOp::Div => Val::Int(ops::div(a, b, ty)),
            BinOp::Rem => Val::Int(ops::rem(a, b, ty)),
            BinOp::BitAnd => Val::Int(ops::bitand_split(a, b, ty, &at).unwrap_or_else(|| ops::bitand(a, b, ty))),
            BinOp::BitOr => Val::Int(ops::bitor_disjoint(a, b, ty, &at).unwrap_or_else(|| ops::bitor(a, b, ty))),
            BinOp::BitXor => Val::Int(ops::bitxor(a, b, ty)),
            BinOp::Shl | BinOp::ShlUnchecked => Val::Int(ops::shl(a, b, ty, &at)),
            BinOp::Shr | BinOp::ShrUnchecked => Val::Int(ops::shr(a, b, ty, &at)),
            _ => {
                self.unsupported("binop");
                self.top_of(rty, 0)
            }
        }
    }

    pub fn eval_rvalue(&mut self, st: &mut State, dest: &Place<'tcx>, rv: &Rvalue<'tcx>) -> Val {
        let body_rc = self.stack.last().unwrap().clone();
        let body = &body_rc.body;
        let fi = self.fi() as usize;
        match rv {
            Rvalue::Use(op, ..) => {
                let v = self.eval_operand(st, op);
                // remember where a scalar temp was loaded from, for refinement write-back
                if dest.projection.is_empty() {
                    if let Operand::Copy(p) | Operand::Move(p) = op {
                        if (!p.projection.is_empty() || p.local != dest.local) && matches!(v, Val::Int(_)) {
                            if let PlaceRef::Mem(ptr) = self.resolve_place(st, p) {
                                if ptr.frame != STATICS && !ptr.proj.iter().any(|e| matches!(e, PElem::IndexRange(..))) {
                                    let bv = st.frames[ptr.frame as usize].vers[ptr.local as usize];
                                    // recorded after the assignment bumps the version (see exec_statement)
                                    self.pending_origin = Some((dest.local.as_u32(), ptr, bv));
                                }
                            }
                        }
                        // a copy of a bool keeps the comparison it was defined by
                        if p.projection.is_empty() && p.local != dest.local {
                            if let Val::Int(i) = &v {
                                if i.ty.bits == 1 {
                                    let fi = self.fi() as usize;
                                    let (l, ver) = (p.local.as_u32(), st.frames[fi].vers[p.local.as_usize()]);
                                    if let Some(d) = st.frames[fi].bdefs.iter().find(|e| e.0 == l && e.1 == ver).map(|e| e.2.clone()) {
                                        self.pending_bdef = Some((dest.local.as_u32(), d));
                                    }
                                }
                            }
                        }
                    }
                }
                v
            }
            Rvalue::CopyForDeref(p) => self.read_place(st, p),
            Rvalue::Repeat(op, n) => {
                let v = self.eval_operand(st, op);
                match self.array_len(*n) {
                    Some(n) => Val::Arr(Rc::new(ArrV::uniform(v, n))),
                    None => Val::Top,
                }
            }
            Rvalue::Ref(_, _, p) | Rvalue::RawPtr(_, p) => match self.resolve_place(st, p) {
                PlaceRef::Mem(ptr) => {
                    // reference to a slice-typed place (reborrow of *slice) keeps the fat pointer
                    Val::Ref(ptr)
                }
                PlaceRef::SliceView { base, start, len } => Val::Slice { base, start, len },
                PlaceRef::Unknown => Val::Top,
            },
            Rvalue::Cast(kind, op, ty) => {
                let v = self.eval_operand(st, op);
                match kind {
                    CastKind::IntToInt => match (v.as_int(), ity_of(*ty)) {
                        (Some(i), Some(to)) => Val::Int(ops::cast(i, to, &self.atoms(st))),
                        _ => self.top_of(*ty, 0),
                    },
                    CastKind::PointerCoercion(ty::adjustment::PointerCoercion::Unsize, _) => {
                        // &[T; N] -> &[T]
                        let src_ty = op.ty(body, self.tcx);
                        let n = match src_ty.builtin_deref(true).map(|t| t.kind()) {
                            Some(ty::Array(_, n)) => self.array_len(*n),
                            _ => None,
                        };
                        match (v, n) {
                            (Val::Ref(p), Some(n)) => Val::Slice { base: p, start: IntV::konst(0, ITy::USIZE), len: IntV::konst(n as i128, ITy::USIZE) },
                            (v @ Val::Slice { .. }, _) => v,
                            _ => {
                                self.unsupported("unsize-cast");
                                Val::Top
                            }
                        }
                    }
                    CastKind::PointerCoercion(..) | CastKind::PtrToPtr | CastKind::Transmute | CastKind::Subtype => {
                        // closures to fn pointers etc.: keep the value (references stay references)
                        v
                    }
                    _ => {
                        self.unsupported("cast-kind");
                        self.top_of(*ty, 0)
                    }
                }
            }
            Rvalue::BinaryOp(op, ops2) => {
                let (l, r) = (&ops2.0, &ops2.1);
                let a = self.eval_operand(st, l);
                let b = self.eval_operand(st, r);
                let rty = rv.ty(body, self.tcx);
                match (&a, &b) {
                    (Val::Int(x), Val::Int(y)) => {
                        let mut res = self.int_binop(st, *op, x, y, rty);
                        if self.lin_tier && matches!(op, BinOp::Mul | BinOp::MulUnchecked | BinOp::MulWithOverflow) {
                            res = self.bilinear_product(st, x, y, res);
                        }
                        // record comparison definitions for later branch refinement
                        if dest.projection.is_empty() {
                            let c = match op {
                                BinOp::Eq => Some(Cmp::Eq),
                                BinOp::Ne => Some(Cmp::Ne),
                                BinOp::Lt => Some(Cmp::Lt),
                                BinOp::Le => Some(Cmp::Le),
                                BinOp::Gt => Some(Cmp::Gt),
                                BinOp::Ge => Some(Cmp::Ge),
                                _ => None,
                            };
                            if let Some(c) = c {
                                if let (Some(sa), Some(sb)) = (self.op_src(st, l, &a), self.op_src(st, r, &b)) {
                                    let fa = self.fact_of_src(st, &sa);
                                    let fb = self.fact_of_src(st, &sb);
                                    if self.trace_on && self.trace_pat == "FACTS" && !st.frames[self.fi() as usize].callres.is_empty() {
                                        eprintln!("TRACE cmp def {:?} sa={:?} callres={:?} fa={:?}", c, sa, st.frames[self.fi() as usize].callres, fa);
                                    }
                                    self.pending_bdef = Some((dest.local.as_u32(), BoolDef::Cmp { op: c, a: sa, b: sb, fa, fb, ia: (x.lo, x.hi), ib: (y.lo, y.hi) }));
                                }
                            }
                        }
                        if self.taint_track && matches!(op, BinOp::Div | BinOp::Rem) && (x.taint | y.taint) != 0 && (x.is_const().is_none() || y.is_const().is_none()) {
                            self.leak("variable-time-op", &format!("{:?}", op));
                        }
                        res
                    }
                    _ => {
                        if !matches!(a, Val::Top) || !matches!(b, Val::Top) {
                            self.unsupported("binop-nonint");
                        }
                        self.top_of(rty, 0)
                    }
                }
            }
            Rvalue::UnaryOp(op, o) => {
                let v = self.eval_operand(st, o);
                let rty = rv.ty(body, self.tcx);
                match op {
                    UnOp::Not => match v.as_int() {
                        Some(i) => {
                            if dest.projection.is_empty() && i.ty.bits == 1 {
                                if let Operand::Copy(p) | Operand::Move(p) = o {
                                    if p.projection.is_empty() {
                                        let ver = st.frames[fi].vers[p.local.as_usize()];
                                        self.pending_bdef = Some((dest.local.as_u32(), BoolDef::Not(p.local.as_u32(), ver)));
                                    }
                                }
                            }
                            Val::Int(ops::not(i, i.ty))
                        }
                        None => self.top_of(rty, 0),
                    },
                    UnOp::Neg => match v.as_int() {
                        Some(i) => {
                            let (r, may) = ops::neg(i, i.ty, &self.atoms(st));
                            if may {
                                // plain Neg wraps; the overflow check is a separate Assert on Eq(x, MIN)
                                Val::Int(IntV::top(i.ty).with_taint(i.taint))
                            } else {
                                Val::Int(r)
                            }
                        }
                        None => self.top_of(rty, 0),
                    },
                    UnOp::PtrMetadata => match v {
                        Val::Slice { len, .. } => Val::Int(len),
                        _ => self.top_of(rty, 0),
                    },
                }
            }
            Rvalue::Discriminant(p) => {
                let v = self.read_place(st, p);
                let rty = rv.ty(body, self.tcx);
                let pty = p.ty(body, self.tcx).ty;
                match (&v, pty.kind()) {
                    (Val::Enum(e), ty::Adt(adt, _)) => {
                        let mut lo = i128::MAX;
                        let mut hi = i128::MIN;
                        for k in e.variants.keys() {
                            let d = adt.discriminant_for_variant(self.tcx, rustc_abi::VariantIdx::from_u32(*k)).val as i128;
                            lo = lo.min(d);
                            hi = hi.max(d);
                        }
                        if dest.projection.is_empty() {
                            if let PlaceRef::Mem(ptr) = self.resolve_place(st, p) {
                                self.pending_discr = Some((dest.local.as_u32(), ptr));
                            }
                        }
                        let it = ity_of(rty).unwrap_or(ITy::ISIZE);
                        if lo > hi {
                            Val::Bot
                        } else {
                            Val::Int(IntV::new(lo, hi, it))
                        }
                    }
                    _ => self.top_of(rty, 0),
                }
            }
            Rvalue::Aggregate(kind, fields) => {
                let vals: Vec<Val> = fields.iter().map(|o| self.eval_operand(st, o)).collect();
                match &**kind {
                    mir::AggregateKind::Array(_) => {
                        let mut arr = ArrV::uniform(Val::Bot, vals.len() as u64);
                        for (i, v) in vals.into_iter().enumerate() {
                            arr.over.insert(i as u64, v);
                        }
                        arr.compress();
                        Val::Arr(Rc::new(arr))
                    }
                    mir::AggregateKind::Tuple | mir::AggregateKind::Closure(..) => Val::Tuple(Rc::new(vals)),
                    mir::AggregateKind::Adt(did, variant, _, _, _) => {
                        let adt = self.tcx.adt_def(*did);
                        if adt.is_enum() {
                            let mut m = std::collections::BTreeMap::new();
                            m.insert(variant.as_u32(), vals);
                            Val::Enum(Rc::new(EnumV { variants: m }))
                        } else if adt.is_struct() {
                            Val::Tuple(Rc::new(vals))
                        } else {
                            Val::Top
                        }
                    }
                    _ => {
                        self.unsupported("aggregate-kind");
                        Val::Top
                    }
                }
            }
            _ => {
                self.unsupported("rvalue-kind");
                let rty = rv.ty(body, self.tcx);
                self.top_of(rty, 0)
            }
        }
    }

    pub fn exec_statement(&mut self, st: &mut State, s: &mir::Statement<'tcx>) {
        match &s.kind {
            StatementKind::Assign(b) => {
                let (place, rv) = (&b.0, &b.1);
                self.pending_origin = None;
                self.pending_bdef = None;
                self.pending_discr = None;
                let mut v = self.eval_rvalue(st, place, rv);
                // inside a scalar region every non-trivial computed integer gets its own atom so
                // that later sign tests / comparisons can refine it
                if self.region_depth > 0 && place.projection.is_empty() {
                    if let Val::Int(i) = &v {
                        if i.lo != i.hi && i.ty.bits > 1 && i.lin.as_ref().map(|l| l.single().is_none()).unwrap_or(true) {
                            let def = i.lin.clone();
                            let a = self.fresh_atom(st, i.lo, i.hi, def);
                            let mut j = i.clone();
                            j.lin = Some(Rc::new(Lin::atom(a)));
                            v = Val::Int(j);
                        }
                    }
                }
                if self.trace_on {
                    let nm = self.stack.last().map(|b| b.name.clone()).unwrap_or_default();
                    if nm.contains(&self.trace_pat) {
                        let extra = match &v {
                            Val::Int(i) => format!(" lin={:?} canon={:?} aff={:?}", i.lin, i.canon, i.affs),
                            _ => String::new(),
                        };
                        eprintln!("TRACE {} bb{} {:?} = {:?}  => {}{}", nm, self.cur_bb, place, rv, v.short(), extra);
                    }
                }
                self.write_place(st, place, v);
                let fi = self.fi() as usize;
                if place.projection.is_empty() {
                    let l = place.local.as_u32();
                    let ver = st.frames[fi].vers[l as usize];
                    if let Some((dl, ptr, bv)) = self.pending_origin.take() {
                        if dl == l {
                            st.frames[fi].origin.push((l, ver, ptr, bv));
                        }
                    }
                    if let Some((dl, def)) = self.pending_bdef.take() {
                        if dl == l {
                            st.frames[fi].bdefs.push((l, ver, def));
                        }
                    }
                    if let Some((dl, ptr)) = self.pending_discr.take() {
                        if dl == l {
                            st.frames[fi].discr.push((l, ver, ptr));
                        }
                    }
                }
            }
            StatementKind::SetDiscriminant { .. } => self.unsupported("set-discriminant"),
            StatementKind::StorageDead(l) => {
                let fi = self.fi() as usize;
                if l.as_usize() < st.frames[fi].locals.len() {
                    if let Some(Some(m)) = self.scope_end.last_mut() {
                        if let Val::Int(i) = &st.frames[fi].locals[l.as_usize()] {
                            let e = m.entry(l.as_u32()).or_insert((i.lo, i.hi));
                            e.0 = e.0.min(i.lo);
                            e.1 = e.1.max(i.hi);
                        }
                    }
                    st.frames[fi].locals[l.as_usize()] = Val::Bot;
                    st.frames[fi].bump(l.as_u32());
                }
            }
            StatementKind::Intrinsic(_) => {}
            _ => {}
        }
    }

    // ---- obligations ----------------------------------------------------------------------

    pub fn register_sites(&mut self, bi: &BodyInfo<'tcx>) {
        if !bi.local || self.registered.contains(&bi.name) {
            return;
        }
        self.registered.insert(bi.name.clone());
        for (bb, data) in bi.body.basic_blocks.iter_enumerated() {
            let Some(term) = &data.terminator else { continue };
            match &term.kind {
                TerminatorKind::Assert { msg, .. } => {
                    let kind = format!("{:?}", msg);
                    let kind = kind.split('(').next().unwrap_or("").to_string();
                    let key = format!("{}|bb{}|assert:{}", bi.name, bb.as_usize(), kind);
                    let snip = self.tcx.sess.source_map().span_to_snippet(term.source_info.span.source_callsite()).unwrap_or_default();
                    let snip: String = snip.split_whitespace().collect::<Vec<_>>().join(" ");
                    let opk = match &**msg {
                        mir::AssertKind::Overflow(op, ..) => format!("{:?}", op),
                        _ => String::new(),
                    };
                    let shape = self.assert_shape(bi, data, msg);
                    self.sites.insert(key, Site { inst: bi.name.clone(), kind: format!("assert:{}{}", kind, opk), msg: snip.chars().take(120).collect(), shape,
                        site: site_str(self.tcx, term.source_info.span), visits: 0, violated: false, witness: String::new(), roots: BTreeSet::new(), ctxs: BTreeSet::new() });
                }
                TerminatorKind::Call { func, target, .. } => {
                    if let Some((name, _)) = self.callee_name(&bi.body, func) {
                        if is_panic_fn(&name) && target.is_none() {
                            let key = format!("{}|bb{}|panic:{}", bi.name, bb.as_usize(), short_fn(&name));
                            let mut pm = self.panic_message(bi, bb.as_usize());
                            if pm.is_empty() {
                                let snip = self.tcx.sess.source_map().span_to_snippet(term.source_info.span.source_callsite()).unwrap_or_default();
                                pm = snip.split_whitespace().collect::<Vec<_>>().join(" ").chars().take(120).collect();
                            }
                            self.sites.insert(key, Site { inst: bi.name.clone(), kind: format!("panic:{}", short_fn(&name)), msg: pm, shape: String::new(),
                                site: site_str(self.tcx, term.source_info.span), visits: 0, violated: false, witness: String::new(), roots: BTreeSet::new(), ctxs: BTreeSet::new() });
                        }
                    }
                }
                _ => {}
            }
        }
    }

    /// stable, source-text-free description of an Assert obligation
    fn assert_shape(&self, bi: &BodyInfo<'tcx>, data: &mir::BasicBlockData<'tcx>, msg: &mir::AssertKind<Operand<'tcx>>) -> String {
        let opd = |o: &Operand<'tcx>| -> String {
            match o {
                Operand::Constant(c) => match c.const_.try_eval_scalar_int(self.tcx, self.env) {
                    Some(v) => format!("const {}", v.to_bits_unchecked()),
                    None => format!("{:?}", c.const_.ty()),
                },
                _ => format!("{:?}", o.ty(&bi.body, self.tcx)),
            }
        };
        match msg {
            mir::AssertKind::Overflow(op, a, b) => format!("{} {:?} {}", opd(a), op, opd(b)),
            mir::AssertKind::OverflowNeg(a) => format!("neg {}", opd(a)),
            mir::AssertKind::DivisionByZero(a) | mir::AssertKind::RemainderByZero(a) => format!("divisor-of {}", opd(a)),
            mir::AssertKind::BoundsCheck { len, .. } => {
                // the container whose length is checked: look for the definition of `len` in this block
                if let Operand::Constant(_) = len {
                    return format!("array len {}", opd(len));
                }
                if let Operand::Copy(p) | Operand::Move(p) = len {
                    for st in data.statements.iter().rev() {
                        if let StatementKind::Assign(b) = &st.kind {
                            if b.0.local == p.local && b.0.projection.is_empty() {
                                return match &b.1 {
                                    Rvalue::UnaryOp(mir::UnOp::PtrMetadata, o) => format!("index {:?}", o.ty(&bi.body, self.tcx)),
                                    other => format!("index {:?}", other.ty(&bi.body, self.tcx)),
                                };
                            }
                        }
                    }
                }
                "index".to_string()
            }
            other => format!("{:?}", std::mem::discriminant(other)),
        }
    }

    /// best-effort extraction of the literal message of a panic block (for stable keys)
    fn panic_message(&self, bi: &BodyInfo<'tcx>, bb: usize) -> String {
        // the literal usually sits in the block that builds fmt::Arguments, a predecessor
        let mut cur = bb;
        for _ in 0..4 {
            let m = self.panic_message_in(&bi.body, cur);
            if !m.is_empty() {
                return m;
            }
            let preds = &bi.cfg.pred[cur];
            if preds.len() != 1 {
                break;
            }
            cur = preds[0];
        }
        String::new()
    }

    fn panic_message_in(&self, body: &mir::Body<'tcx>, bb: usize) -> String {
        let data = &body.basic_blocks[cfg_bb(bb)];
        let mut out = String::new();
        for s in &data.statements {
            if let StatementKind::Assign(b) = &s.kind {
                let txt = format!("{:?}", b.1);
                if let Some(i) = txt.find("const \"") {
                    let rest = &txt[i + 7..];
                    if let Some(j) = rest.find('"') {
                        out = rest[..j].to_string();
                    }
                }
            }
        }
        if let Some(t) = &data.terminator {
            let txt = format!("{:?}", t.kind);
            if let Some(i) = txt.find("const \"") {
                let rest = &txt[i + 7..];
                if let Some(j) = rest.find('"') {
                    out = rest[..j].to_string();
                }
            }
        }
        out
    }

    pub fn site_visit(&mut self, key: &str, ok: bool, witness: String) {
        let root = self.cur_root.clone();
        if !ok {
            self.viol_events += 1;
        }
        let ctx = if ok { String::new() } else { self.call_path() };
        if let Some(s) = self.sites.get_mut(key) {
            s.visits += 1;
            if !ok {
                if s.ctxs.len() < 12 && !ctx.is_empty() {
                    s.ctxs.insert(ctx);
                }
                if !s.violated {
                    s.witness = witness;
                }
                s.violated = true;
                s.roots.insert(root);
            }
        } else if !ok {
            self.sites.insert(key.to_string(), Site { inst: self.stack.last().map(|b| b.name.clone()).unwrap_or_default(), kind: "model".into(), msg: String::new(), shape: String::new(),
                site: String::new(), visits: 1, violated: true, witness, roots: [root].into_iter().collect(), ctxs: BTreeSet::new() });
        } else {
            self.sites.insert(key.to_string(), Site { inst: self.stack.last().map(|b| b.name.clone()).unwrap_or_default(), kind: "model".into(), msg: String::new(), shape: String::new(),
                site: String::new(), visits: 1, violated: false, witness: String::new(), roots: BTreeSet::new(), ctxs: BTreeSet::new() });
        }
    }

    pub fn call_path(&self) -> String {
        let mut v: Vec<String> = Vec::new();
        for b in self.stack.iter() {
            let n = b.short.clone();
            if n.starts_with("{closure") {
                continue;
            }
            if v.last() != Some(&n) {
                v.push(n);
            }
        }
        v.join(">")
    }

    /// re-apply memoised violations of a callee at the current call site
    pub fn replay_violations(&mut self, viol: &[(String, Vec<String>)]) {
        let base = self.call_path();
        let root = self.cur_root.clone();
        self.viol_events += viol.len() as u64;
        for (key, rels) in viol {
            if let Some(s) = self.sites.get_mut(key) {
                s.visits += 1;
                s.violated = true;
                s.roots.insert(root.clone());
                for r in rels {
                    if s.ctxs.len() < 16 {
                        s.ctxs.insert(if r.is_empty() { base.clone() } else { format!("{}>{}", base, r) });
                    }
                }
            }
        }
    }

    /// violations recorded since `before`, with call paths relative to the current stack
    pub fn violations_since(&self, before: &std::collections::BTreeSet<String>, callee_prefix: &str) -> Vec<(String, Vec<String>)> {
        let base = self.call_path();
        let mut out = Vec::new();
        for (k, s) in self.sites.iter() {
            if !s.violated || !s.roots.contains(&self.cur_root) {
                continue;
            }
            let is_new = !before.contains(k);
            let pre = format!("{}>", base);
            let sub = format!("{}>", callee_prefix);
            let rels: Vec<String> = s
                .ctxs
                .iter()
                .filter(|c| c.starts_with(&pre))
                .map(|c| c[pre.len()..].to_string())
                .filter(|r| r == callee_prefix || r.starts_with(&sub))
                .collect();
            if !rels.is_empty() || (is_new && s.ctxs.is_empty()) {
                out.push((k.clone(), rels));
            }
        }
        out
    }

    /// obligation raised by a std model (slice range, expect, copy_from_slice...) at the current call site
    pub fn model_obligation(&mut self, what: &str, ok: bool, witness: String) {
        let (name, bb, site) = match (self.stack.last(), self.cur_call_bb) {
            (Some(b), bbx) => {
                let sp = b.body.basic_blocks[cfg_bb(bbx)].terminator.as_ref().map(|t| site_str(self.tcx, t.source_info.span)).unwrap_or_default();
                (b.name.clone(), bbx, sp)
            }
            _ => ("<root>".to_string(), 0, String::new()),
        };
        let key = format!("{}|bb{}|model:{}", name, bb, what);
        self.site_visit(&key, ok, witness);
        if let Some(s) = self.sites.get_mut(&key) {
            if s.site.is_empty() {
                s.site = site;
            }
            s.kind = format!("model:{}", what);
        }
    }

    pub fn leak(&mut self, kind: &str, detail: &str) {
        if let Some(b) = self.stack.last() {
            let bbx = self.cur_call_bb;
            let key = format!("{}|{}|{}", b.name, kind, detail);
            let site = b.body.basic_blocks.get(cfg_bb(self.cur_bb)).and_then(|d| d.terminator.as_ref()).map(|t| site_str(self.tcx, t.source_info.span)).unwrap_or_default();
            let _ = bbx;
            self.leaks.entry(key).or_insert(site);
        }
    }

    pub fn callee_name(&self, body: &mir::Body<'tcx>, func: &Operand<'tcx>) -> Option<(String, ty::GenericArgsRef<'tcx>)> {
        let fty = func.ty(body, self.tcx);
        match fty.kind() {
            ty::FnDef(def, args) => Some((crate::facts::def_name(self.tcx, *def), args)),
            _ => None,
        }
    }

    // ---- branch refinement ----------------------------------------------------------------

    /// assume the bool in local `l` has value `val`; returns false when infeasible
    pub fn assume_bool_local(&mut self, st: &mut State, l: u32, val: bool, depth: u32) -> bool {
        let fi = self.fi() as usize;
        let cur = match &st.frames[fi].locals[l as usize] {
            Val::Int(i) => i.clone(),
            _ => return true,
        };
        if let Some(c) = cur.is_const() {
            if (c != 0) != val {
                return false;
            }
        }
        let ver = st.frames[fi].vers[l as usize];
        let def = st.frames[fi].bdefs.iter().find(|e| e.0 == l && e.1 == ver).map(|e| e.2.clone());
        // the local itself becomes the constant (no version bump: same definition)
        let mut nv = IntV::boolean(val);
        nv.taint = cur.taint;
        st.frames[fi].locals[l as usize] = Val::Int(nv);
        if depth > 4 {
            return true;
        }
        match def {
            Some(BoolDef::Not(src, sver)) => {
                if st.frames[fi].vers[src as usize] == sver {
                    return self.assume_bool_local(st, src, !val, depth + 1);
                }
                true
            }
            Some(BoolDef::Cmp { op, a, b, fa, fb, ia, ib }) => {
                let op = if val { op } else { op.negate() };
                let ok = self.assume_cmp(st, op, &a, &b);
                if self.trace_on && self.trace_pat == "FACTS" {
                    eprintln!("TRACE assume cmp {:?} ok={} fa={:?} fb={:?}", op, ok, fa, fb);
                }
                if ok && (fa.is_some() || fb.is_some()) {
                    self.assume_fact_cmp(st, op, &fa, &fb, ia, ib);
                }
                ok
            }
            None => true,
        }
    }

    fn src_val(&self, st: &State, s: &Src) -> Option<(IntV, Option<u32>)> {
        let fi = self.fi() as usize;
        match s {
            Src::Konst(i) => Some((i.clone(), None)),
            Src::Local(l, ver) => {
                if st.frames[fi].vers[*l as usize] != *ver {
                    return None;
                }
                match &st.frames[fi].locals[*l as usize] {
                    Val::Int(i) => Some((self.atoms(st).concretize(i)?, Some(*l))),
                    _ => None,
                }
            }
        }
    }

    /// a branch condition refined local `l`: if it holds a tracked call result, refine the path fact too
    fn refine_fact(&mut self, st: &mut State, fi: usize, l: u32, r: &IntV) {
        if st.frames[fi].callres.is_empty() {
            return;
        }
        let ver = st.frames[fi].vers[l as usize];
        let key = st.frames[fi].callres.iter().find(|e| e.0 == l && e.1 == ver).map(|e| e.2.clone());
        if let Some(k) = key {
            if let Some(old) = st.facts.get(&k).cloned() {
                let n = (old.0.max(r.lo), old.1.min(r.hi), old.2);
                if n != old {
                    Rc::make_mut(&mut st.facts).insert(k, n);
                }
            }
        }
    }

    /// (key, generation) of the path fact a comparison operand is the tracked call result of
    fn fact_of_src(&self, st: &State, s: &Src) -> Option<(Rc<str>, u64)> {
        let Src::Local(l, ver) = s else { return None };
        let fi = self.fi() as usize;
        // the operand is usually a temporary copy of the variable that holds the call result
        let (mut l, mut ver) = (*l, *ver);
        for _ in 0..4 {
            if let Some(key) = st.frames[fi].callres.iter().find(|e| e.0 == l && e.1 == ver).map(|e| e.2.clone()) {
                let g = st.facts.get(&key)?.2;
                return Some((key, g));
            }
            let org = st.frames[fi].origin.iter().find(|e| e.0 == l && e.1 == ver).cloned();
            let Some((_, _, ptr, bver)) = org else { return None };
            if !ptr.proj.is_empty() || ptr.frame as usize != fi || st.frames[fi].vers[ptr.local as usize] != bver {
                return None;
            }
            l = ptr.local;
            ver = bver;
        }
        None
    }

    /// the compared temporaries may be dead when the branch is taken; the path fact (same generation)
    /// is refined from the comparison itself
    fn assume_fact_cmp(&mut self, st: &mut State, op: Cmp, fa: &Option<(Rc<str>, u64)>, fb: &Option<(Rc<str>, u64)>, ia: (i128, i128), ib: (i128, i128)) {
        let val_of = |st: &State, f: &Option<(Rc<str>, u64)>, snap: (i128, i128)| -> IntV {
            if let Some((k, g)) = f {
                if let Some(cur) = st.facts.get(k) {
                    if cur.2 == *g && *g != 0 {
                        return IntV::new(cur.0.max(snap.0), cur.1.min(snap.1), ITy::I128);
                    }
                }
            }
            IntV::new(snap.0, snap.1, ITy::I128)
        };
        let (av, bv) = (val_of(st, fa, ia), val_of(st, fb, ib));
        if av.lo > av.hi || bv.lo > bv.hi {
            return;
        }
        let Some((ra, rb)) = ops::refine(op, &av, &bv) else { return };
        if self.trace_on && self.trace_pat == "FACTS" {
            eprintln!("TRACE fact refine {:?} av={} bv={} -> {} {} facts={:?}", op, av.short(), bv.short(), ra.short(), rb.short(), st.facts);
        }
        for (f, r) in [(fa, ra), (fb, rb)] {
            if let Some((k, g)) = f {
                if let Some(old) = st.facts.get(k).cloned() {
                    if old.2 == *g && *g != 0 {
                        let n = (old.0.max(r.lo), old.1.min(r.hi), old.2);
                        if n != old && n.0 <= n.1 {
                            Rc::make_mut(&mut st.facts).insert(k.clone(), n);
                        }
                    }
                }
            }
        }
    }

    fn assume_cmp(&mut self, st: &mut State, op: Cmp, a: &Src, b: &Src) -> bool {
        let (Some((av, al)), Some((bv, bl))) = (self.src_val(st, a), self.src_val(st, b)) else { return true };
        let Some((ra, rb)) = ops::refine(op, &av, &bv) else { return false };
        let fi = self.fi() as usize;
        for (l, r) in [(al, ra), (bl, rb)] {
            // push onto atoms
            let mut at = self.atoms(st);
            if !ops::refine_atom(&mut at, &r) {
                return false;
            }
            st.atoms = at.itv;
            if let Some(l) = l {
                st.frames[fi].locals[l as usize] = Val::Int(r.clone());
                self.refine_fact(st, fi, l, &r);
                // write the refinement back to the place the temp was loaded from (transitively:
                // `_5 = copy _3; _3 = copy (*_2)`)
                let mut cur_l = l;
                for _ in 0..4 {
                    let ver = st.frames[fi].vers[cur_l as usize];
                    let org = st.frames[fi].origin.iter().find(|e| e.0 == cur_l && e.1 == ver).cloned();
                    let Some((_, _, ptr, bver)) = org else { break };
                    if st.frames[ptr.frame as usize].vers[ptr.local as usize] != bver {
                        break;
                    }
                    if let Val::Int(old) = st.read(&ptr) {
                        let mut n = old.clone();
                        n.lo = n.lo.max(r.lo);
                        n.hi = n.hi.min(r.hi);
                        if n.lo > n.hi {
                            return false;
                        }
                        st.refine_at(&ptr, Val::Int(n));
                    }
                    if ptr.proj.is_empty() && ptr.frame as usize == fi {
                        cur_l = ptr.local;
                        self.refine_fact(st, fi, cur_l, &r);
                    } else {
                        break;
                    }
                }
            }
        }
        true
    }

    /// refine the state for taking the SwitchInt edge with value `v` (None = otherwise edge)
    pub fn assume_switch(&mut self, st: &mut State, discr: &Operand<'tcx>, v: Option<u128>, all_vals: &[u128]) -> bool {
        let fi = self.fi() as usize;
        let (Operand::Copy(p) | Operand::Move(p)) = discr else { return true };
        if !p.projection.is_empty() {
            return true;
        }
        let l = p.local.as_u32();
        let cur = match &st.frames[fi].locals[l as usize] {
            Val::Int(i) => i.clone(),
            _ => return true,
        };
        if cur.ty.bits == 1 {
            return match v {
                Some(x) => self.assume_bool_local(st, l, x != 0, 0),
                None => {
                    // otherwise edge of a bool switch: the value not listed
                    if all_vals.len() == 1 {
                        self.assume_bool_local(st, l, all_vals[0] == 0, 0)
                    } else {
                        true
                    }
                }
            };
        }
        // integer or discriminant switch
        let ver = st.frames[fi].vers[l as usize];
        let mut nv = cur.clone();
        match v {
            Some(x) => {
                let x = cur.ty.wrap(x as i128);
                if x < cur.lo || x > cur.hi {
                    return false;
                }
                nv = IntV::konst(x, cur.ty).with_taint(cur.taint);
            }
            None => {
                // exclude listed values at the interval ends
                let mut changed = true;
                while changed {
                    changed = false;
                    for a in all_vals {
                        let a = cur.ty.wrap(*a as i128);
                        if nv.lo == a && nv.lo <= nv.hi {
                            nv.lo += 1;
                            changed = true;
                        }
                        if nv.hi == a && nv.lo <= nv.hi {
                            nv.hi -= 1;
                            changed = true;
                        }
                    }
                }
                if nv.lo > nv.hi {
                    return false;
                }
            }
        }
        let mut at = self.atoms(st);
        if !ops::refine_atom(&mut at, &nv) {
            return false;
        }
        st.atoms = at.itv;
        st.frames[fi].locals[l as usize] = Val::Int(nv.clone());
        // discriminant of an enum place: restrict the variant set
        let dp = st.frames[fi].discr.iter().find(|e| e.0 == l && e.1 == ver).map(|e| e.2.clone());
        if let Some(ptr) = dp {
            if let Val::Enum(e) = self.read_ptr(st, &ptr) {
                let keep: std::collections::BTreeMap<u32, Vec<Val>> = e
                    .variants
                    .iter()
                    .filter(|(k, _)| {
                        let d = self.discr_value(st, &ptr, **k);
                        d.map(|d| d >= nv.lo && d <= nv.hi && (v.is_some() || !all_vals.iter().any(|a| *a as i128 == d))).unwrap_or(true)
                    })
                    .map(|(k, v)| (*k, v.clone()))
                    .collect();
                if keep.is_empty() {
                    return false;
                }
                if ptr.frame != STATICS && !ptr.proj.iter().any(|e| matches!(e, PElem::IndexRange(..))) {
                    st.refine_at(&ptr, Val::Enum(Rc::new(EnumV { variants: keep })));
                }
            }
        }
        // write back to load origin as well
        let org = st.frames[fi].origin.iter().find(|e| e.0 == l && e.1 == ver).cloned();
        if let Some((_, _, ptr, bver)) = org {
            if st.frames[ptr.frame as usize].vers[ptr.local as usize] == bver {
                if let Val::Int(old) = st.read(&ptr) {
                    let mut n = old.clone();
                    n.lo = n.lo.max(nv.lo);
                    n.hi = n.hi.min(nv.hi);
                    if n.lo <= n.hi {
                        st.refine_at(&ptr, Val::Int(n));
                    }
                }
            }
        }
        true
    }

    fn discr_value(&self, _st: &State, _ptr: &Ptr, variant: u32) -> Option<i128> {
        // all enums in scope (Result, Option, ControlFlow, Ph, Ordering) use discriminant == variant index
        // except Ordering (-1,0,1), which the crate never switches on through a place
        Some(variant as i128)
    }
}

pub fn idx_elem(lo: i128, hi: i128) -> PElem {
    if lo == hi {
        PElem::Index(lo)
    } else {
        PElem::IndexRange(lo, hi)
    }
}

pub fn cfg_bb(i: usize) -> mir::BasicBlock {
    mir::BasicBlock::from_usize(i)
}

pub fn is_panic_fn(name: &str) -> bool {
    name.starts_with("core::panicking::")
        || name.ends_with("::expect_failed")
        || name.ends_with("::unwrap_failed")
        || name.starts_with("core::slice::index::slice_")
        || name.contains("::copy_from_slice::len_mismatch_fail")
        || name.starts_with("std::rt::begin_panic")
        || name.starts_with("core::option::expect_failed")
        || name.starts_with("core::result::unwrap_failed")
}

pub fn short_fn(name: &str) -> String {
    name.rsplit("::").next().unwrap_or(name).to_string()
}

#[allow(dead_code)]
fn _u(_: BTreeSet<u8>) {}
