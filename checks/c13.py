"""C13 - no input can make the library panic (debug assertions + overflow checks on).

Decided by abstract interpretation of every public entry point on arbitrary inputs, each key
consumer composed with every key producer (deserialisation of arbitrary bytes, key generation,
derivation).  Every MIR `Assert` terminator, every call to a panicking function and every modelled
std precondition reachable from these roots is an obligation; it is discharged when the abstract
state makes the failing edge infeasible in every context.

Not discharged obligations are: violations (reported), known findings (known_findings.json, exact
key), or assumed (rules/assume.json: one named obligation each, with the lemma that justifies it).
"""
import os
import sys
import time

sys.path.insert(0, os.path.join(os.path.dirname(os.path.abspath(__file__)), "..", "lib"))
import aicheck
import roots
import vlib

# hand-counted floors on the pinned tree (fail closed when the analysis sees less)
FLOOR_SITES = {"44": 600}
FLOOR_ROOTS = 30
NTT_FUNCS = ("ntt::ntt", "ntt::inv_ntt", "helpers::mat_vec_mul", "helpers::to_mont", "helpers::add_vector_ntt", "helpers::mont_reduce",
             "helpers::partial_reduce64", "helpers::partial_reduce32", "helpers::full_reduce32")


def run(pid, tier, site_filter=None, title=""):
    rep = vlib.Report(pid, tier)
    sets = aicheck.sets_for(tier)
    jobs = {s: roots.api_jobs(s, tier) for s in sets}
    res, errs = aicheck.run_sets(jobs)
    assume = aicheck.load_assume()
    tot = dis = n_assumed = unreached = 0
    samples = []
    assumed_keys = set()
    used_assume = set()
    per_root = {}
    for s in sets:
        r = res.get(s)
        if r is None:
            vlib.fail_closed(rep, "driver:%s" % s, errs.get(s))
            continue
        bad_jobs = [j["id"] for j in r["jobs"] if j.get("error") or j.get("over_budget") or j.get("result") is None]
        if bad_jobs:
            vlib.fail_closed(rep, "jobs:%s" % s, {"failed_or_over_budget": bad_jobs})
        if len(r["jobs"]) < FLOOR_ROOTS:
            vlib.fail_closed(rep, "root-floor:%s" % s, "only %d roots analysed" % len(r["jobs"]))
        if r["unmodelled"]:
            vlib.fail_closed(rep, "unmodelled-callees:%s" % s, r["unmodelled"])
        if r["unsupported"]:
            vlib.fail_closed(rep, "unsupported-constructs:%s" % s, r["unsupported"])
        sites = r["sites"]
        if site_filter:
            sites = [x for x in sites if site_filter(x)]
        elif len(sites) < FLOOR_SITES.get(s, 600):
            vlib.fail_closed(rep, "site-floor:%s" % s, "only %d obligation sites registered (floor %d)" % (len(sites), FLOOR_SITES.get(s, 600)))
        viol, assumed, used = aicheck.classify(sites, assume)
        used_assume |= used
        tot += len(sites)
        unreached += sum(1 for x in sites if x["visits"] == 0)
        n_assumed += len(assumed)
        dis += sum(1 for x in sites if not x["violated"])
        for a in assumed:
            assumed_keys.add(a["skey"])
        for v in viol:
            rep.violation(v["skey"], aicheck.site_report(v))
        for x in sites:
            if x["visits"] > 0 and not x["violated"] and len(samples) < 8 and x["kind"].startswith(("assert:Overflow", "panic:")) and x.get("msg"):
                samples.append({"set": s, "function": x["inst"], "obligation": x["kind"], "message_or_expr": x["msg"], "site": x["site"], "contexts_visited": x["visits"], "status": "discharged"})
        per_root[s] = {j["id"]: {"steps": j["steps"], "wall_ms": j["wall_ms"]} for j in r["jobs"]}
    # stale assume entries are not allowed to accumulate (only checked when all three sets ran)
    if tier == "thorough" and not site_filter:
        for a in assume:
            k = a["key"] + "|" + ",".join(a.get("ctx_any", []))
            if k not in used_assume:
                rep.violation("stale-assume:" + a["key"], {"rule": "an assumed obligation that no longer exists / is no longer needed must be removed", "entry": a})
    cov = {
        "obligations": tot, "discharged": dis + n_assumed if False else dis,
        "assumed": n_assumed, "assumed_keys": sorted(assumed_keys),
        "unreached_in_every_context": unreached,
        "checker_cmd": "python3 bin/check %s --tier %s (driver ai mode, %d roots x %d parameter set(s))" % (pid, tier, FLOOR_ROOTS, len(sets)),
        "trusted_base": ["soundness of the abstract domains / std models in /verif/driver", "hash, zeroize and rand_core implementations do not panic",
                         "assumed obligations listed in rules/assume.json with their lemmas"],
        "samples": samples,
        "sets": sets, "roots": per_root,
        "explanation": title,
    }
    # proof-level claim requires discharged == obligations for the obligations not assumed/known; the
    # evidence reports the exact split so that the claim text can be checked against it
    cov["not_discharged"] = tot - dis
    return rep, cov


def roundtrip_obligations(rep, tier):
    """try_from_bytes -> into_bytes analysed as ONE composition with symbolic coefficients (linear forms modulo q
    through the transforms, see C09 P3): here the encode-range self-checks that the per-root analysis has to assume
    are decided, so no assumption applies to this composition."""
    sets = aicheck.sets_for(tier)
    lin = {"modulus": "8380417", "lin.cap": "600"}
    jobs = {}
    for s in sets:
        n = roots.names(s)
        jobs[s + ":rt-pk"] = [("%s:rt:pk" % s, n["pk_from_bytes"], dict(lin, atomize="conversion::simple_bit_unpack", then=n["pk_into_bytes"]))]
        jobs[s + ":rt-sk"] = [("%s:rt:sk" % s, n["sk_from_bytes"], dict(lin, atomize="conversion::bit_unpack", then=n["sk_into_bytes"]))]
    res, errs = aicheck.run_sets(jobs, timeout=6000)
    n_sites = n_ok = 0
    for key in jobs:
        r = res.get(key)
        if r is None:
            vlib.fail_closed(rep, "driver-roundtrip:%s" % key, errs.get(key))
            continue
        j = r["jobs"][0]
        if j.get("error") or j.get("over_budget") or j.get("result") is None or r["unmodelled"] or r["unsupported"]:
            vlib.fail_closed(rep, "roundtrip-job:%s" % key, {"error": j.get("error"), "unmodelled": r["unmodelled"], "unsupported": r["unsupported"]})
            continue
        for x in r["sites"]:
            if x["visits"] == 0 and not x["violated"]:
                continue
            n_sites += 1
            if x["violated"]:
                rep.violation("roundtrip:" + aicheck.stable_key(x), dict(aicheck.site_report(x), rule="no obligation may fail along try_from_bytes -> into_bytes for any input (no assumption applies to this composition)"))
            else:
                n_ok += 1
    return {"obligations_visited": n_sites, "discharged": n_ok, "sets": sets}


def main(tier):
    rep, cov = run("C13", tier, title="all panic obligations reachable from the public API, per root x producer composition")
    cov["roundtrip_composition"] = roundtrip_obligations(rep, tier)
    return rep.finish("other", cov, ["see trusted_base", "rejection-loop iteration count is unbounded in the abstract (kappa overflow sites assumed, see DESIGN D5)"])


if __name__ == "__main__":
    tier = "quick"
    if "--tier" in sys.argv:
        tier = sys.argv[sys.argv.index("--tier") + 1]
    sys.exit(main(tier))
