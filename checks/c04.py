"""C04 - key generation is the FIPS 204 function of the 32-byte seed (clauses decided statically).

Decided for every seed / generator output, for all three parameter sets, from one abstract run of
keygen_from_seed and of try_keygen_with_rng (working and failing generator):
  K1  sources: try_keygen_with_rng makes exactly one generator request, of 32 bytes filling xi, and
      feeds exactly that buffer to the same key_gen_internal instance keygen_from_seed calls;
      the two runs build identical lists of hash instances (kind, absorbed shapes, reads);
      a failing generator yields Err with no hash instance created; a working one yields Ok for every
      drawn value (no seed is refused); nothing unmodelled is called.
  K2  (rho, rho', K) = H(xi | k | l) read as 32 | 64 | 32 bytes at offsets 0, 32, 96 (Alg. 6 line 1),
      with the constants k and l of FIPS 204 Table 1 in this order.
  K3  A-hat = ExpandA(rho): k*l SHAKE128 instances, instance (r, s) absorbs rho | s | r, row-major.
  K4  (s1, s2) = ExpandS(rho'): l+k SHAKE256 instances, instance r absorbs rho' | IntegerToBytes(r,2).
  K5  tr = H(pkEncode(rho, t1), 64): the absorbed item is the whole PK_LEN-byte encoding, one 64-byte
      read at offset 0; pkEncode's ranges are those of FIPS (C08 R2).
  K6  exact-copy provenance of the byte fields of the returned keys: pk.rho and sk.rho are both the
      bytes 0..32 of H(xi|k|l), sk.K the bytes 96..128, pk.tr and sk.tr the 64 bytes read from the
      tr hash instance (no byte of them is rewritten afterwards).
  K7  the rejection samplers and Power2Round equal their FIPS definitions on their whole domain
      (CoeffFromThreeBytes incl. the z = q-1 / q boundary, CoeffFromHalfByte for both eta,
      Power2Round on all of Z_q): engine of C15.
  K8  t is fully reduced before Power2Round: the abstract range of Power2Round's argument is
      inside [0, q-1].
  K9  the keys are stored in NTT / Montgomery form; one symbolic run of keygen_from_seed followed by
      into_bytes (sampled coefficients and Power2Round outputs are named symbols, linear forms modulo
      q carried through the transforms) shows that pkEncode receives exactly t1 and skEncode exactly
      the sampled s1, s2 (t0: congruent modulo q with unit coefficient, equal given K7's range).
  K10 the ring arithmetic of Alg. 6 line 5: a symbolic run in which the entries of A-hat, the
      sampled coefficients and the outputs of the transforms are named symbols and products of two
      symbols are interned product symbols shows: the first NTT is applied to exactly s1; NTT^-1 is
      applied to sum_j A-hat[i][j] o NTT(s1)[j] (unit coefficients modulo q - Montgomery factors
      cancel); Power2Round is applied to that result + s2.  With C18 F (ntt / inv_ntt are the FIPS
      maps), K3/K4, K7, K9 every step of KeyGen_internal is accounted for.
  K11 RejNTTPoly and RejBoundedPoly leave their loop only with 256 accepted coefficients: in every
      call (k*l and l+k of them) a counter variable of the function is exactly 256 when its scope
      ends, on every path to the return (interval invariant j <= 256 + exit condition j >= 256).
Trusted: the hash implementations and that NTT diagonalises the negacyclic product (mathematics).
"""
import json
import os
import sys

sys.path.insert(0, os.path.join(os.path.dirname(os.path.abspath(__file__)), "..", "lib"))
sys.path.insert(0, os.path.dirname(os.path.abspath(__file__)))
import absorb
import aicheck
import roots
import structure as st
import vlib
import c15

Q = 8380417


def site_shapes(job, strip):
    out = []
    for x in st.dedup(absorb.sites(job, "xof")):
        path = x["path"]
        path = path[path.index(strip):] if strip in path else path
        rd = [(d["off"], d["len"]) for d in absorb.reads(job, x["id"])]
        out.append((x["kind"], path, tuple((tuple(i["len"]), i["consts"]) for i in x["items"]), tuple(rd)))
    return out


def tags_of(v):
    """byte-array leaves of a key pair summary -> list of (path, len, tag)"""
    out = []

    def walk(x, path):
        if isinstance(x, dict):
            if "enum" in x:
                for k, fs in x["enum"].items():
                    walk(fs, path)
            elif "arr_len" in x:
                if isinstance(x.get("elems"), dict) and "int" in x["elems"]:
                    out.append((path, x["arr_len"], x.get("tag")))
                else:
                    walk(x.get("elems"), path + "[]")
        elif isinstance(x, list):
            if len(x) == 1:
                walk(x[0], path)
            else:
                for i, y in enumerate(x):
                    walk(y, path + ".%d" % i)

    walk(v, "")
    return out


def main(tier):
    rep = vlib.Report("C04", tier)
    cnt = [0, 0]

    def ob(ok, key, detail):
        cnt[0] += 1
        if ok:
            cnt[1] += 1
        else:
            rep.violation(key, detail)

    sets = ["44", "65", "87"]
    jobs = {}
    for s in sets:
        n = roots.names(s)
        pr = {"probe": "high_low::power2round|" + st.SAMPLER_PROBES}
        jobs[s] = [("%s:seed" % s, n["keygen_from_seed"], dict(pr)), ("%s:rng" % s, n["try_keygen_with_rng"], dict(pr, rng="ok")),
                   ("%s:rngfail" % s, n["try_keygen_with_rng"], {"rng": "err"})]
    LIN = {"modulus": "8380417", "lin.cap": "600"}
    for s in sets:
        n = roots.names(s)
        jobs[s + ":lin-sk"] = [("%s:lin-sk" % s, n["keygen_from_seed"], dict(LIN, atomize="hashing::rej_bounded_poly|high_low::power2round", identity="encodings::sk_encode",
                                                                            then=n["sk_into_bytes"], **{"then.field": "1"}))]
        jobs[s + ":lin-pk"] = [("%s:lin-pk" % s, n["keygen_from_seed"], dict(LIN, atomize="high_low::power2round", identity="encodings::pk_encode", then=n["pk_into_bytes"], **{"then.field": "0"}))]
        jobs[s + ":lin-arith"] = [("%s:lin-arith" % s, n["keygen_from_seed"], dict(LIN, atomize="hashing::rej_ntt_poly|hashing::rej_bounded_poly|ntt::ntt|ntt::inv_ntt",
                                                                                  dump_args="ntt::ntt|ntt::inv_ntt|high_low::power2round"))]
    res, errs = aicheck.run_sets(jobs, timeout=6000)
    samples = []
    for s in sets:
        r = res.get(s)
        P = aicheck.PARAMS[s]
        k, l = P["k"], P["l"]
        if r is None:
            vlib.fail_closed(rep, "driver:%s" % s, errs.get(s))
            continue
        if r["unmodelled"] or r["unsupported"]:
            vlib.fail_closed(rep, "unmodelled:%s" % s, {"unmodelled": r["unmodelled"], "unsupported": r["unsupported"]})
        J = {j["id"].split(":")[1]: j for j in r["jobs"]}
        bad = [a for a, j in J.items() if j.get("error") or j.get("over_budget") or j.get("result") is None]
        if bad:
            vlib.fail_closed(rep, "job:%s" % s, {a: J[a].get("error") for a in bad})
            continue
        # K1
        rc = st.rng_calls(J["rng"])
        ok = len(rc) == 1 and rc[0]["len"] == "32" and rc[0]["covers_whole_buffer"] == "true" and rc[0]["request_index"] == "0"
        ob(ok, "K1:one-rng-request", {"rule": "K1 exactly one generator request of 32 bytes that fills xi", "entry": J["rng"]["root"], "set": s, "requests": rc})
        kgi = lambda j: sorted((c, v) for c, v in j["calls"].items() if c.startswith("ml_dsa::key_gen_internal::<"))
        ob(kgi(J["seed"]) == kgi(J["rng"]) and len(kgi(J["seed"])) == 1 and kgi(J["seed"])[0][1] == 1, "K1:same-internal-function",
           {"rule": "K1 both entry points run the same key_gen_internal instance exactly once", "set": s, "seeded": kgi(J["seed"]), "rng_driven": kgi(J["rng"])})
        a, b = site_shapes(J["seed"], "key_gen_internal"), site_shapes(J["rng"], "key_gen_internal")
        ob(a == b and len(a) == 2 + k * l + k + l, "K1:same-hash-instances", {"rule": "K1 the seeded and the generator-driven run create identical hash instances (kind, absorbed shapes, reads)",
                                                                              "set": s, "seeded": len(a), "rng_driven": len(b), "expected": 2 + k * l + k + l,
                                                                              "first_difference": next(((x, y) for x, y in zip(a, b) if x != y), None)})
        rr = J["rng"]["result"]
        ob(isinstance(rr, dict) and sorted(rr.get("enum", {}).keys()) == ["v0"], "K1:rng-success-is-ok",
           {"rule": "K1 with a working generator try_keygen_with_rng returns Ok for every 32 bytes drawn (keygen_from_seed is total: no drawn value is refused)", "set": s,
            "entry": J["rng"]["root"], "abstract_result": J["rng"]["partitions"]})
        fe = J["rngfail"]
        okf = isinstance(fe["result"], dict) and list(fe["result"].get("enum", {}).keys()) == ["v1"] and not absorb.sites(fe, "xof")
        ob(okf, "K1:rng-failure-is-err", {"rule": "K1 a failing generator gives Err and no key material is computed", "set": s, "result": fe["partitions"]})
        for ent in ("seed", "rng"):
            j = J[ent]
            # K2
            hs = [x for x in st.dedup(st.sites_under(j, "key_gen_internal>h256_xof", "Shake256")) if len(x["items"]) == 3]
            ok2, seen = False, None
            if len(hs) == 1:
                it = hs[0]["items"]
                rd = absorb.reads(j, hs[0]["id"])
                seen = {"absorbed": hs[0]["rendered"][:200], "reads": [(d["off"], d["len"], d["dest"]) for d in rd]}
                src_ok = it[0]["src"] == "in.xi" if ent == "seed" else (it[0]["src"] == rc[0]["dest"] if rc else False) and it[0]["taint_all"] & 1 == 1
                ok2 = it[0]["len"] == [32, 32] and src_ok and it[1]["consts"] == "%02x" % k and it[2]["consts"] == "%02x" % l and it[1]["len"] == [1, 1] and it[2]["len"] == [1, 1] \
                    and [(d["off"], d["len"]) for d in rd] == [("0..0", "32"), ("32..32", "64"), ("96..96", "32")]
                h_id = hs[0]["id"]
            ob(ok2, "K2:seed-expansion:%s" % ent, {"rule": "K2 (rho, rho', K) = H(xi | k | l, 128) split 32 | 64 | 32", "entry": j["root"], "set": s, "k": k, "l": l, "seen": seen})
            if not ok2:
                continue
            rd = absorb.reads(j, h_id)
            rho_dest, rhop_dest = rd[0]["dest"], rd[1]["dest"]
            # K3, K4
            st.expand_a(j, P, ob, "key_gen_internal", "keygen:%s" % ent, lambda src: src == rho_dest)
            st.expand_s(j, P, ob, "key_gen_internal", "keygen:%s" % ent, lambda src: src == rhop_dest)
            st.sampler_fill(j, ob, "keygen:%s" % ent, {"rej_ntt_poly": k * l, "rej_bounded_poly": k + l})
            # K5
            trs = [x for x in st.dedup(st.sites_under(j, "key_gen_internal>h256_xof", "Shake256")) if len(x["items"]) == 1]
            ok5, rd5 = False, None
            if len(trs) == 1:
                okr, rd5 = st.single_read(j, trs[0], 64, ".tr")
                ok5 = okr and trs[0]["items"][0]["len"] == [P["pk_len"], P["pk_len"]] and any(c.startswith("encodings::pk_encode::<") for c in j["calls"])
                tr_id = trs[0]["id"]
            ob(ok5, "K5:tr:%s" % ent, {"rule": "K5 tr = H(pkEncode(rho, t1), 64) over the whole encoding", "entry": j["root"], "set": s, "pk_len": P["pk_len"],
                                        "sites": [x["rendered"][:120] for x in trs], "reads": rd5})
            # K6 (by field name / multiset of tags: independent of the declaration order of struct fields)
            ns = st.named_structs(j)
            pkb, skb = st.byte_fields(ns.get("types::PublicKey")), st.byte_fields(ns.get("types::PrivateKey"))
            bytes_fields = {"pk": pkb, "sk": skb}
            ok6 = False
            if ok5:
                t_rho, t_k, t_tr = "xof%s@0+32" % h_id, "xof%s@96+32" % h_id, "xof%s@0+64" % tr_id
                srt = lambda xs: sorted(xs, key=lambda x: (x[0], str(x[1])))  # a rewritten field has no tag (None)
                ok6 = srt(pkb.values()) == srt([(32, t_rho), (64, t_tr)]) and srt(skb.values()) == srt([(32, t_rho), (32, t_k), (64, t_tr)])
            ob(ok6, "K6:byte-field-provenance:%s" % ent,
               {"rule": "K6 the public key holds unmodified copies of H(xi|k|l)[0..32] and of the 64 tr bytes; the private key of H(..)[0..32], H(..)[96..128] and the same tr", "entry": j["root"], "set": s,
                "fields": bytes_fields})
            # K8
            p2 = st.ret_probes(j, "high_low::power2round")
            p2bad = [x for x in r["sites"] if x["inst"].startswith("high_low::power2round") and x["violated"] and "power2round input" in str(x.get("msg"))]
            ob(len(p2) == 1 and not p2bad, "K8:power2round-once-on-reduced-t:%s" % ent,
               {"rule": "K8 Power2Round is applied exactly once and its input-range self-check (all coefficients in [0, q)) is discharged", "entry": j["root"], "set": s,
                "power2round_calls": len(p2), "input_range_obligation_violated": bool(p2bad)})
            if ent == "seed":
                samples.append({"set": s, "seed_expansion": seen, "byte_fields": bytes_fields, "hash_instances": len(a)})
    # K9: serialisation of a generated key pair is pkEncode / skEncode of the sampled s1, s2 and of Power2Round's output
    for s in sets:
        P = aicheck.PARAMS[s]
        k, l = P["k"], P["l"]
        for kind, fn, want_runs, n_exact, n_total in (
                ("pk", "encodings::pk_encode", "power2round#0[0..%d]" % (256 * k), 256 * k, 256 * k),
                ("sk", "encodings::sk_encode", " ".join("rej_bounded_poly#%d[0..256]" % i for i in range(l + k)), 256 * (l + k), 256 * (l + 2 * k))):
            r = res.get("%s:lin-%s" % (s, kind))
            if r is None:
                vlib.fail_closed(rep, "driver-lin:%s:%s" % (s, kind), errs.get("%s:lin-%s" % (s, kind)))
                continue
            j = r["jobs"][0]
            ip = [p["data"] for p in j["probes"] if p["what"] == "identity" and p["inst"].startswith(fn) and p["data"].get("path", "").endswith("into_bytes")]
            ok9 = len(ip) == 1 and ip[0]["leaves"] == str(n_total) and int(ip[0]["exact"]) >= n_exact and ip[0]["runs"].startswith(want_runs)
            t0_note = None
            if ok9 and kind == "sk":
                # t0 = second half of Power2Round's output: congruent modulo q with unit coefficient (equal given |t0| <= 2^12, K7)
                rest = ip[0]["runs"][len(want_runs):].strip()
                t0_note = rest
                ok9 = rest in ("?x%d" % (256 * k), "power2round#0[%d..%d]" % (256 * k, 512 * k))
                if rest.startswith("?"):
                    ne = ip[0].get("not_exact", "")
                    ok9 = ok9 and "lin=1*power2round#0[%d] + 0 (mod 8380417)" % (256 * k) in ne
            ob(ok9, "K9:serialised-%s-is-encode-of-sampled-values" % kind,
               {"rule": "K9 into_bytes of a generated key hands %s exactly the sampled s1, s2 / the Power2Round output (the NTT / Montgomery precompute and its inverse are transparent)" % fn.split("::")[-1],
                "set": s, "probe": [{kk: vv[:240] for kk, vv in d.items()} for d in ip][:1], "t0": t0_note})
            if kind == "pk":
                samples.append({"set": s, "K9_pk_coefficients_exact": ip[0]["exact"] if ip else None})
    # K10: the ring arithmetic of Alg. 6 line 5, symbolically (matrix entries, sampled coefficients and transform
    # outputs are named symbols; products of two symbols are interned product symbols)
    for s in sets:
        P = aicheck.PARAMS[s]
        k, l = P["k"], P["l"]
        r = res.get("%s:lin-arith" % s)
        if r is None or r["jobs"][0].get("error"):
            vlib.fail_closed(rep, "driver-lin-arith:%s" % s, (errs.get("%s:lin-arith" % s) or str(r and r["jobs"][0].get("error")))[-400:])
            continue
        pr = [p for p in r["jobs"][0]["probes"] if p["what"] == "arg_forms"]

        def forms(p):
            out = []
            for line in p["data"]["forms"].split("\n"):
                if not line:
                    continue
                if line == "-":
                    out.append(None)
                    continue
                m, d, terms = line.split("|", 2)
                out.append((int(m), int(d), {t.rsplit(":", 1)[0]: int(t.rsplit(":", 1)[1]) for t in terms.split(",") if t}))
            return out
        ntts = [p for p in pr if p["inst"].startswith("ntt::ntt::<%d_" % l)]
        invs = [p for p in pr if p["inst"].startswith("ntt::inv_ntt::<%d_" % k)]
        p2s = [p for p in pr if p["inst"].startswith("high_low::power2round")]
        ok_a = ok_b = ok_c = False
        if ntts and invs and p2s:
            fa, fb, fc = forms(ntts[0]), forms(invs[0]), forms(p2s[0])
            ok_a = len(fa) == 256 * l and all(f == (0, 0, {"rej_bounded_poly#%d[%d]" % (i // 256, i % 256): 1}) for i, f in enumerate(fa))
            ok_b = len(fb) == 256 * k and all(f == (8380417, 0, {"(rej_ntt_poly#%d[%d]*ntt#0[%d])" % ((i // 256) * l + j, i % 256, j * 256 + i % 256): 1 for j in range(l)}) for i, f in enumerate(fb))
            ok_c = len(fc) == 256 * k and all(f == (8380417, 0, {"rej_bounded_poly#%d[%d]" % (l + i // 256, i % 256): 1, "inv_ntt#0[%d]" % i: 1}) for i, f in enumerate(fc))
        ob(ok_a, "K10:ntt-of-s1", {"rule": "K10 the first NTT of key generation is applied to exactly the sampled s1", "set": s, "calls": len(ntts)})
        ob(ok_b, "K10:matrix-vector-product", {"rule": "K10 NTT^-1 is applied to  sum_j A-hat[i][j] o NTT(s1)[j]  (point-wise, modulo q, unit coefficients: the Montgomery factors cancel)", "set": s,
                                               "first_leaf": invs and invs[0]["data"]["forms"].split("\n")[0][:300]})
        ob(ok_c, "K10:t-is-as1-plus-s2", {"rule": "K10 Power2Round is applied to NTT^-1(A-hat o NTT(s1)) + s2 (modulo q; canonical representative by full_reduce32's contract)", "set": s,
                                         "first_leaf": p2s and p2s[0]["data"]["forms"].split("\n")[0][:200]})
    ksamples, kstats = c15.analyse(rep, ob, tier, {"three_bytes", "half_byte", "power2round"}, prefix="K7:")
    cov = {
        "obligations": cnt[0], "discharged": cnt[1],
        "checker_cmd": "python3 bin/check C04 (driver ai mode: hash / rng probes, exact-copy provenance tags; sampler and Power2Round exactness by piecewise analysis)",
        "trusted_base": ["abstract interpreter soundness", "hash model (absorb lists, sequential reads)", "lib/spec.py transcribes FIPS 204 Alg. 14, 15, 35"],
        "samples": samples, "kernels": kstats,
        "explanation": "clauses hold for every seed at once; the polynomial arithmetic (t = A s1 + s2) and the serialisers' inverse precompute are not decided",
    }
    return rep.finish("other", cov, ["ring arithmetic not decided", "hash model"])


if __name__ == "__main__":
    tier = "quick"
    if "--tier" in sys.argv:
        tier = sys.argv[sys.argv.index("--tier") + 1]
    sys.exit(main(tier))
