"""C15 - coefficient arithmetic is exact on its whole domain.

(i)  Contracts of the reductions over their full documented input ranges, one abstract run each:
     mont_reduce, partial_reduce32, full_reduce32, center_mod: no overflow, every trailing
     self-check discharged, result inside the documented range, result congruent to its
     definition (linear congruence modulo q carried by the abstract value:  a*2^-32, a, a, m).
     partial_reduce64 on the shape its caller supplies (x * 2^32, |x| < 67_058_539): piecewise
     analysis that bisects the x range until every cell is proved safe (cells shrink to single
     points only in the narrow band next to the documented bound).
(ii) Exact equality with the FIPS 204 definition on the whole domain for Power2Round, Decompose /
     HighBits / LowBits (both gamma2), UseHint (h in {0,1}), mod+- (center_mod),
     CoeffFromThreeBytes, CoeffFromHalfByte (both eta): piecewise-affine analysis inside the driver.
     The input is a named symbol; the domain is bisected until on each cell the abstract result is
     an exact affine function c*x+d of the symbol (or a constant) with all obligations discharged.
     This script then checks every cell against lib/spec.py: no spec breakpoint inside the cell and
     equality at both ends, which is equality on the whole cell.
     MakeHint(z, r): HighBits exact (above) + structural rule that make_hint is two HighBits calls
     compared with `!=`, + evaluated points.
"""
import bisect
import json
import os
import sys
import time

sys.path.insert(0, os.path.join(os.path.dirname(os.path.abspath(__file__)), "..", "lib"))
import aicheck
import spec
import vlib

Q = spec.Q
G2 = {"88": (Q - 1) // 88, "32": (Q - 1) // 32}
PRE32 = 2143289344 - 1
B64 = 67058539 - 1


def bp_inside(bps, lo, hi):
    i = bisect.bisect_right(bps, lo)
    return i < len(bps) and bps[i] <= hi


GROUPS = ("contracts", "center_mod", "decompose", "use_hint", "power2round", "half_byte", "make_hint", "three_bytes")


def group_of(name):
    for g in ("center_mod", "use_hint", "power2round"):
        if name.startswith(g):
            return g
    return "decompose"


def main(tier):
    rep = vlib.Report("C15", tier)
    cnt = [0, 0]

    def ob(ok, key, detail):
        cnt[0] += 1
        if ok:
            cnt[1] += 1
        else:
            rep.violation(key, detail)

    samples, stats = analyse(rep, ob, tier, None)
    cov = {
        "obligations": cnt[0], "discharged": cnt[1],
        "checker_cmd": "python3 bin/check C15 (driver ai mode with in-driver piecewise-affine bisection; cells checked against lib/spec.py)",
        "trusted_base": ["abstract interpreter soundness (exact affine forms, congruences, affine quotient forms)", "lib/spec.py transcribes FIPS 204 Alg. 14, 15, 35-40 and mod+-",
                         "rules/spec_breakpoints.json (brute-forced from lib/spec.py, re-derived in the thorough tier)"],
        "samples": samples[:40],
        "functions": stats,
        "explanation": "each cell is a set of inputs decided at once; two affine functions equal at both ends of a cell with no breakpoint of the definition inside are equal on the whole cell",
    }
    return rep.finish("proof", cov, ["spec transcription", "abstract interpreter soundness"])


def analyse(rep, ob, tier, only, prefix=""):
    """only: None (everything) or a set of GROUPS; keys of violations get `prefix`"""
    samples = []
    stats = {}
    want_g = lambda g: only is None or g in only
    if prefix:
        ob0 = ob
        ob = lambda ok, key, detail: ob0(ok, prefix + key, detail)

    bpf = json.load(open(os.path.join(vlib.VERIF, "rules", "spec_breakpoints.json")))
    inv32 = pow(pow(2, 32, Q), Q - 2, Q)
    jobs = [] if not want_g("contracts") else [
        ("mont_reduce", "helpers::mont_reduce", {"arg0": "-17996808479301632..17996808470921215", "modulus": str(Q), "probe": "helpers::mont_reduce"}),
        ("partial_reduce32", "helpers::partial_reduce32", {"arg0": "-%d..%d" % (PRE32, PRE32), "modulus": str(Q), "probe": "helpers::partial_reduce32"}),
        ("full_reduce32", "helpers::full_reduce32", {"arg0": "-%d..%d" % (PRE32, PRE32), "modulus": str(Q), "probe": "helpers::full_reduce32"}),
        ("center_mod", "helpers::center_mod", {"arg0": "-%d..%d" % (PRE32, PRE32), "modulus": str(Q), "probe": "helpers::center_mod"}),
        ("pwa:partial_reduce64", "helpers::partial_reduce64", {"pwa": "arg0", "pwa.range": "-%d..%d" % (B64, B64), "scale.arg0": str(1 << 32), "pwa.accept": "safe"}),
    ]
    # spec components: name -> (root, fixed opts, arg key, domain, [(spec fn, breakpoints)] per integer leaf)
    lo_c, hi_c = -PRE32, PRE32
    first = (Q + 1) // 2 + ((lo_c - (Q + 1) // 2) // Q + 1) * Q
    cm_bps = list(range(first, hi_c + 1, Q))
    pw = {"center_mod": ("helpers::center_mod", {}, "arg0", (lo_c, hi_c), [(lambda m: spec.mod_pm(m, Q), cm_bps)])}
    for gname, g2 in G2.items():
        fx = {"arg0": "%d..%d" % (g2, g2)}
        b1, b0 = bpf["decompose%s.r1" % gname]["breakpoints"], bpf["decompose%s.r0" % gname]["breakpoints"]
        pw["decompose%s" % gname] = ("high_low::decompose", fx, "arg1", (0, Q - 1), [(lambda r, g2=g2: spec.decompose(r, g2)[0], b1), (lambda r, g2=g2: spec.decompose(r, g2)[1], b0)])
        pw["high_bits%s" % gname] = ("high_low::high_bits", fx, "arg1", (0, Q - 1), [(lambda r, g2=g2: spec.high_bits(r, g2), b1)])
        pw["low_bits%s" % gname] = ("high_low::low_bits", fx, "arg1", (0, Q - 1), [(lambda r, g2=g2: spec.low_bits(r, g2), b0)])
        for h in (0, 1):
            pw["use_hint%s_h%d" % (gname, h)] = ("high_low::use_hint", dict(fx, arg1="%d..%d" % (h, h)), "arg2", (0, Q - 1),
                                                 [(lambda r, g2=g2, h=h: spec.use_hint(h, r, g2), bpf["use_hint%s.h%d" % (gname, h)]["breakpoints"])])
    pw["power2round"] = ("high_low::power2round::<4_usize>", {"pwa.elems": "1"}, "arg0", (0, Q - 1),
                         [(lambda r: spec.power2round(r)[0], bpf["power2round.r1"]["breakpoints"]), (lambda r: spec.power2round(r)[1], bpf["power2round.r0"]["breakpoints"])])
    grids = {"center_mod": "%d:%d" % (Q, (Q + 1) // 2), "power2round": "8192:4097"}
    for gname, g2 in G2.items():
        for f in ("decompose", "high_bits", "low_bits"):
            grids["%s%s" % (f, gname)] = "%d:%d" % (2 * g2, g2 + 1)
        for h in (0, 1):
            grids["use_hint%s_h%d" % (gname, h)] = "%d:%d" % (2 * g2, g2 + 1)
    pw = {k: v for k, v in pw.items() if want_g(group_of(k))}
    for name, (root, fixed, argk, dom, comps) in pw.items():
        o = dict(fixed)
        o.update({"pwa": argk, "pwa.range": "%d..%d" % dom, "pwa.accept": "exact", "pwa.grid": grids[name]})
        if name == "power2round":
            o["fast_from_fn"] = "1"
        jobs.append(("pwa:" + name, root, o))
    for eta in ((2, 4) if want_g("half_byte") else ()):
        for b in range(16):
            jobs.append(("hb#%d#%d" % (eta, b), "conversion::coeff_from_half_byte::<false>", {"arg0": "%d..%d" % (eta, eta), "arg1": "%d..%d" % (b, b)}))
    mh_points = []
    for gname, g2 in (G2.items() if want_g("make_hint") else ()):
        for r0, z in ((0, 0), (g2 - 5, 3), (g2 - 5, 10), (Q - 1 - g2, g2), (5, g2), (g2, 1), (g2 + 1, Q - 1), (3 * g2, 2 * g2 + 1)):
            mh_points.append((gname, r0, z))
            jobs.append(("mh#%s#%d#%d" % (gname, r0, z), "high_low::make_hint", {"arg0": "%d..%d" % (g2, g2), "arg1": "%d..%d" % (z, z), "arg2": "%d..%d" % (r0, r0)}))

    with vlib.Scratch() as sc:
        r, err, dt = vlib.run_ai(sc, jobs, tag="c15", timeout=3000)
        if r is None:
            vlib.fail_closed(rep, prefix + "driver", err[-2000:])
            return samples, stats
        res = {j["id"]: j for j in r["jobs"]}
        viol = {}
        for s in r["sites"]:
            if s["violated"]:
                for rt in s["roots"]:
                    viol.setdefault(rt, []).append(s)
        if r["unmodelled"] or r["unsupported"]:
            vlib.fail_closed(rep, "unmodelled", {"unmodelled": r["unmodelled"], "unsupported": r["unsupported"]})
        # ---------------- (i) contracts
        want = {"mont_reduce": ((-(Q - 1), Q - 1), inv32), "partial_reduce32": ((-(Q - 1), Q - 1), 1), "full_reduce32": ((0, Q - 1), 1),
                "center_mod": ((-(Q - 1) // 2, (Q - 1) // 2), 1)}
        for jid, ((wlo, whi), coef) in (want.items() if want_g("contracts") else ()):
            j = res[jid]
            for s in viol.get(jid, []):
                ob(False, "contract:%s:%s" % (jid, aicheck.stable_key(s)), aicheck.site_report(s))
            rr = j["result"]
            ok = isinstance(rr, dict) and "int" in rr and rr["int"][0] >= wlo and rr["int"][1] <= whi
            ob(ok, "contract-range:%s" % jid, {"rule": "result inside the documented output range on the whole documented input range", "function": j["root"],
                                                "abstract_result": rr, "documented": [wlo, whi]})
            pr = [p for p in j["probes"] if p["what"] == "ret" and p["inst"] == j["root"]]
            cong_ok, seen = False, None
            if pr:
                seen = pr[-1]["data"].get("ret_cong", "")
                first_atom = int(pr[-1]["data"].get("first_atom", "0"))
                parts = [x for x in seen.split(";") if x]
                pat = "Lin { m: %d, d: 0, terms: [(%d, %d)] }" % (Q, first_atom, coef)
                cong_ok = bool(parts) and all(x == pat for x in parts)
            ob(cong_ok, "contract-congruence:%s" % jid, {"rule": "result is congruent to %d * input modulo q" % coef, "function": j["root"], "abstract_congruence": seen})
            samples.append({"function": jid, "input_range": [x for x in jobs if x[0] == jid][0][2]["arg0"], "result": rr, "congruence_mod_q": "%d * input" % coef})
        # partial_reduce64
        j = res.get("pwa:partial_reduce64", {})
        cells = (j.get("pwa") or {}).get("cells", []) if want_g("contracts") else []
        hull = [0, 0]
        n_ok = 0
        for lo, hi, status, leaves in cells:
            if status == "safe" or status == "exact":
                n_ok += 1
                l = leaves[0]
                hull = [min(hull[0], l[0]), max(hull[1], l[1])]
                if not (l[0] > -2 * Q and l[1] < 2 * Q):
                    ob(False, "contract-range:partial_reduce64", {"rule": "|result| < 2q", "x_cell": [lo, hi], "result": l[:2]})
            else:
                ob(False, "contract:partial_reduce64", {"rule": "no overflow / self-check failure for x * 2^32 with |x| below the documented bound", "x_cell": [lo, hi], "status": status,
                                                        "sites": [aicheck.stable_key(s) for s in viol.get("pwa:partial_reduce64", [])][:4]})
        covered = sum(hi - lo + 1 for lo, hi, st_, _ in cells)
        if want_g("contracts"):
            ob(covered == 2 * B64 + 1 and n_ok >= 1, "pwa-cover:partial_reduce64", {"rule": "the cells tile the documented domain", "covered": covered, "domain": 2 * B64 + 1})
            stats["partial_reduce64"] = {"cells": len(cells), "abstract_evaluations": (j.get("pwa") or {}).get("evaluations"), "result_hull": hull, "domain_x": [-B64, B64],
                                         "single_point_cells": sum(1 for c in cells if c[0] == c[1])}
        # ---------------- (ii) exactness
        for name, (root, fixed, argk, dom, comps) in pw.items():
            j = res["pwa:" + name]
            cells = (j.get("pwa") or {}).get("cells", [])
            covered = 0
            n_exact = 0
            widths = []
            for lo, hi, status, leaves in cells:
                covered += hi - lo + 1
                if status != "exact":
                    ob(False, "pwa-cell:%s:%s" % (name, status), {"rule": "every cell is decided exactly with all obligations discharged", "function": root, "cell": [lo, hi], "status": status,
                                                                 "leaves": leaves, "sites": [aicheck.stable_key(s) for s in viol.get("pwa:" + name, [])][:4]})
                    continue
                ints = [l for l in leaves if len(l) == 4]
                if len(ints) != len(comps):
                    ob(False, "pwa-shape:%s" % name, {"rule": "fail-closed: result shape", "leaves": leaves})
                    continue
                good = True
                for (f, bps), (vlo, vhi, c, d) in zip(comps, ints):
                    if lo != hi and bp_inside(bps, lo, hi):
                        good = False
                        ob(False, "exact:%s" % name, {"rule": "the definition has a breakpoint inside a cell on which the code is one affine piece", "function": root, "cell": [lo, hi], "code": "%d*x+%d" % (c, d)})
                        break
                    if f(lo) != c * lo + d or f(hi) != c * hi + d:
                        good = False
                        ob(False, "exact:%s" % name, {"rule": "the function equals its FIPS 204 definition on every input of the cell", "function": root, "cell": [lo, hi],
                                                       "code": "%d*x+%d" % (c, d), "code_at_lo": c * lo + d, "spec_at_lo": f(lo), "code_at_hi": c * hi + d, "spec_at_hi": f(hi)})
                        break
                if good:
                    n_exact += 1
                    widths.append(hi - lo + 1)
                    if len(samples) < 40 and n_exact % 211 == 1:
                        samples.append({"function": name, "cell": [lo, hi], "code_pieces": ["%d*x+%d" % (l[2], l[3]) for l in ints]})
            ob(covered == dom[1] - dom[0] + 1 and n_exact >= 1, "pwa-cover:%s" % name, {"rule": "the cells tile the whole domain", "covered": covered, "domain": dom[1] - dom[0] + 1})
            stats[name] = {"cells": len(cells), "exact_cells": n_exact, "abstract_evaluations": (j.get("pwa") or {}).get("evaluations"), "smallest_cell": min(widths) if widths else None,
                           "largest_cell": max(widths) if widths else None, "domain": list(dom)}
        # half bytes
        for eta in ((2, 4) if want_g("half_byte") else ()):
            for b in range(16):
                j = res["hb#%d#%d" % (eta, b)]
                wantv = spec.coeff_from_half_byte(b, eta)
                e = j["result"].get("enum", {}) if isinstance(j["result"], dict) else {}
                if wantv is None:
                    ok = list(e.keys()) == ["v1"]
                else:
                    ok = list(e.keys()) == ["v0"] and e["v0"][0].get("int") == [wantv, wantv]
                ob(ok and not viol.get("hb#%d#%d" % (eta, b)), "exact:coeff_from_half_byte:eta%d" % eta,
                   {"rule": "CoeffFromHalfByte equals Alg. 15", "eta": eta, "b": b, "code": j["partitions"], "spec": wantv})
        if want_g("half_byte"):
            stats["coeff_from_half_byte"] = {"points": 32}
        for gname, r0, z in mh_points:
            j = res["mh#%s#%d#%d" % (gname, r0, z)]
            wantv = spec.make_hint(z, r0, G2[gname])
            got = j["result"].get("int") if isinstance(j["result"], dict) else None
            ob(got == [wantv, wantv], "exact:make_hint", {"rule": "MakeHint equals Alg. 39 on the evaluated point", "gamma2": G2[gname], "z": z, "r": r0, "code": got, "spec": wantv})
        # ---- CoeffFromThreeBytes: boxes over (b0, b1, b2), a few rounds
        if want_g("three_bytes"):
            three_bytes(sc, rep, ob, stats)
        # ---- MakeHint structure
        facts, err, dt = vlib.run_driver(sc, "facts", flags="dbg", tag="c15facts") if want_g("make_hint") else ({"instances": None}, "", 0)
        if facts is not None and facts["instances"] is None:
            pass
        elif facts is None:
            vlib.fail_closed(rep, "facts", err[-1000:])
        else:
            mh = [i for i in facts["instances"] if i["name"] == "high_low::make_hint"]
            ok = len(mh) == 1 and [c.get("resolved") for c in mh[0]["calls"]] == ["high_low::high_bits", "high_low::high_bits"]
            ob(ok, "structure:make_hint", {"rule": "make_hint is HighBits(r) != HighBits(r + z): exactly two calls to high_bits", "calls": mh and [c.get("resolved") for c in mh[0]["calls"]]})
    if tier == "thorough" and only is None:
        sys.path.insert(0, vlib.VERIF)
        import tools_gen_spec_breakpoints as gen
        for k, (f, slope) in gen.components().items():
            got = spec.breakpoints(f, slope, 0, Q - 1)
            ob(got == bpf[k]["breakpoints"], "oracle-table:%s" % k, {"rule": "rules/spec_breakpoints.json equals the brute-force breakpoints of lib/spec.py", "component": k})
    return samples, stats


def three_bytes(sc, rep, ob, stats):
    pending = [((0, 255), (0, 255), (0, 127)), ((0, 255), (0, 255), (128, 255))]
    evals = cells = rounds = 0
    while pending:
        rounds += 1
        if rounds > 40 or evals > 20000:
            ob(False, "pwa-budget:coeff_from_three_bytes", {"pending": len(pending)})
            break
        js = []
        for bx in pending:
            (a0, a1), (c0, c1), (e0, e1) = bx
            js.append(("c3#%s" % (bx,), "conversion::coeff_from_three_bytes::<false>", {"atoms.arg0": "each", "box.arg0": "%d..%d;%d..%d;%d..%d" % (a0, a1, c0, c1, e0, e1)}))
        r, err, dt = vlib.run_ai(sc, js, tag="c15b%d" % rounds)
        if r is None:
            vlib.fail_closed(rep, "driver-3bytes", err[-1000:])
            return
        res = {j["id"]: j for j in r["jobs"]}
        evals += len(js)
        nxt = []
        for bx in pending:
            j = res["c3#%s" % (bx,)]
            (a0, a1), (c0, c1), (e0, e1) = bx
            e1p, e0p = (e1 - 128 if e1 > 127 else e1), (e0 - 128 if e0 > 127 else e0)
            zlo = (e0p << 16) + (c0 << 8) + a0
            zhi = (e1p << 16) + (c1 << 8) + a1
            e = j["result"].get("enum", {}) if isinstance(j["result"], dict) else {}
            names = j.get("atom_names", {})
            spec_all_ok, spec_all_err = zhi < Q, zlo >= Q
            keys = sorted(e.keys())
            point = a0 == a1 and c0 == c1 and e0 == e1
            if keys == ["v0"] and spec_all_ok:
                v = e["v0"][0]
                good = None
                if v.get("int", [0, 1])[0] == v.get("int", [0, 1])[1]:
                    good = point and v["int"][0] == zlo
                elif "lin" in v:
                    d, terms = v["lin"]
                    coefs = {names.get(str(a), "?"): c for a, c in terms}
                    base = 128 if e0 > 127 else 0
                    # byte ranges that are single values appear as constants folded into d
                    exp = {}
                    expd = -base * 65536
                    for nm, (lo, hi), w in (("arg0[0]", (a0, a1), 1), ("arg0[1]", (c0, c1), 256), ("arg0[2]", (e0, e1), 65536)):
                        if lo == hi:
                            expd += w * lo
                        else:
                            exp[nm] = w
                    good = coefs == exp and d == expd
                if good is True:
                    cells += 1
                    continue
                if good is False:
                    ob(False, "exact:coeff_from_three_bytes", {"rule": "CoeffFromThreeBytes equals Alg. 14 (z = 2^16*b2' + 2^8*b1 + b0) on the box", "box": bx, "code": str(e)[:300]})
                    continue
            elif keys == ["v1"] and spec_all_err:
                cells += 1
                continue
            elif (keys == ["v0"] and spec_all_err) or (keys == ["v1"] and spec_all_ok):
                ob(False, "exact:coeff_from_three_bytes", {"rule": "accept/reject decision of CoeffFromThreeBytes equals Alg. 14 (z < q)", "box": bx, "code_variants": keys, "spec_z_range": [zlo, zhi]})
                continue
            sides = [(a1 - a0, 0), (c1 - c0, 1), (e1 - e0, 2)]
            w, which = max(sides)
            if w == 0:
                ob(False, "inexact-point:coeff_from_three_bytes", {"box": bx, "code": str(e)[:200]})
                continue
            lo, hi = bx[which]
            mid = (lo + hi) // 2
            b1_ = list(bx); b1_[which] = (lo, mid)
            b2_ = list(bx); b2_[which] = (mid + 1, hi)
            nxt += [tuple(b1_), tuple(b2_)]
        pending = nxt
    ob(True, "pwa:coeff_from_three_bytes", {})
    stats["coeff_from_three_bytes"] = {"boxes": cells, "abstract_evaluations": evals, "rounds": rounds}


if __name__ == "__main__":
    tier = "quick"
    if "--tier" in sys.argv:
        tier = sys.argv[sys.argv.index("--tier") + 1]
    sys.exit(main(tier))
