"""C14 - secret-independent execution in constant-time test mode (MIR-level leakage model).

Leakage model: an execution leaks through (a) the successor chosen at a SwitchInt / Assert,
(b) the index of an array / slice projection, (c) operands of variable-latency primitives (Div, Rem),
(d) short-circuiting library iterators (all / filter / max / array ==) over the data.
Taint sources: every byte returned by the random generator (seed xi and rnd) - hence all secret
data derived from them - in the whole-pipeline run; all data arguments in the per-kernel runs.

  R1  dudect_keygen_sign_with_rng (CTEST = true, `dudect` feature, debug assertions and overflow
      checks OFF as in the timing harness), all RNG output tainted: the abstract run has no leak
      point whose tainted operand is not a singleton, except the allow-list (rules/ct_allow.json).
      Because control is followed concretely whenever a discriminant is a singleton, this means
      the branch and address sequence is the same for every RNG output.
  R2  each secret-handling kernel alone, data arguments tainted over their caller-established
      ranges, parameters public: same rule.
  R3  positive control: the same analysis on the normal (CTEST = false) signing entry point MUST
      report the rejection-sampling branches (the machinery is alive).
"""
import json
import os
import re
import sys

sys.path.insert(0, os.path.join(os.path.dirname(os.path.abspath(__file__)), "..", "lib"))
import aicheck
import roots
import vlib

Q = 8380417


def kernel_jobs(s):
    P = aicheck.PARAMS[s]
    k, l, eta, g1, g2, om = P["k"], P["l"], P["eta"], P["gamma1"], P["gamma2"], P["omega"]
    bl = lambda x: x.bit_length()
    J = []
    t0 = {"taint.arg0": "1"}
    J.append(("infinity_norm", "helpers::infinity_norm::<%d_usize>" % k, dict(t0, **{"elems.arg0": "%d..%d" % (-Q + 1, Q - 1)})))
    J.append(("center_mod", "helpers::center_mod", dict(t0, arg0="-2143289343..2143289343")))
    J.append(("partial_reduce32", "helpers::partial_reduce32", dict(t0, arg0="-2143289343..2143289343")))
    J.append(("full_reduce32", "helpers::full_reduce32", dict(t0, arg0="-2143289343..2143289343")))
    J.append(("mont_reduce", "helpers::mont_reduce", dict(t0, arg0="-17996808479301632..17996808470921215")))
    J.append(("partial_reduce64", "helpers::partial_reduce64", dict(t0, arg0="-%d..%d" % (34000000 << 32, 34000000 << 32))))
    J.append(("power2round", "high_low::power2round::<%d_usize>" % k, dict(t0, **{"elems.arg0": "0..%d" % (Q - 1)})))
    for f in ("decompose", "high_bits", "low_bits"):
        J.append((f, "high_low::%s" % f, {"arg0": "%d..%d" % (g2, g2), "arg1": "%d..%d" % (-Q + 1, 2 * Q), "taint.arg1": "1"}))
    J.append(("make_hint", "high_low::make_hint", {"arg0": "%d..%d" % (g2, g2), "arg1": "0..%d" % Q, "arg2": "%d..%d" % (-Q + 1, Q - 1), "taint.arg1": "1", "taint.arg2": "1"}))
    for nm, a, b in (("eta", eta, eta), ("t0", (1 << 12) - 1, 1 << 12), ("z", g1 - 1, g1)):
        J.append(("bit_pack_%s" % nm, "conversion::bit_pack", {"elems.arg0": "%d..%d" % (-a, b), "taint.arg0": "1", "arg1": "%d..%d" % (a, a), "arg2": "%d..%d" % (b, b),
                                                                "len.bytes_out": "%d..%d" % (32 * bl(a + b), 32 * bl(a + b))}))
    J.append(("hint_bit_pack_ctest", "conversion::hint_bit_pack::<true, %d_usize>" % k, {"arg0": "%d..%d" % (om, om), "elems.arg1": "0..1", "taint.arg1": "1", "len.y_bytes": "%d..%d" % (om + k, om + k)}))
    J.append(("ntt", "ntt::ntt::<%d_usize>" % l, dict(t0, **{"elems.arg0": "%d..%d" % (-g1, g1)})))
    J.append(("inv_ntt", "ntt::inv_ntt::<%d_usize>" % k, dict(t0, **{"elems.arg0": "%d..%d" % (-40000000, 40000000)})))
    J.append(("to_mont", "helpers::to_mont::<%d_usize>" % l, dict(t0, **{"elems.arg0": "-34000000..34000000"})))
    J.append(("mat_vec_mul", "helpers::mat_vec_mul::<%d_usize, %d_usize>" % (k, l), {"elems.arg0": "0..%d" % (Q - 1), "elems.arg1": "-34000000..34000000", "taint.arg1": "1"}))
    return [("%s:k:%s" % (s, a), b, dict(c, taint="1")) for a, b, c in J]


def main(tier):
    rep = vlib.Report("C14", tier)
    sets = aicheck.sets_for(tier)
    allow = json.load(open(os.path.join(vlib.VERIF, "rules", "ct_allow.json")))["allow"]
    obligations = discharged = 0
    samples = []
    leak_points = 0

    def ob(ok, key, detail):
        nonlocal obligations, discharged
        obligations += 1
        if ok:
            discharged += 1
        else:
            rep.violation(key, detail)

    def allowed(k):
        return any(re.search(a["pattern"], k) for a in allow)

    jobs = {}
    for s in sets:
        jobs[s] = [("%s:dudect" % s, "ml_dsa_%s::dudect_keygen_sign_with_rng::<%s>" % (s, roots.RNG), {"taint": "1", "rng": "ok"})] + kernel_jobs(s)
    res, errs = aicheck.run_sets(jobs, flags="rel", features=["dudect"])
    # positive control in the normal build
    ctl_jobs = {sets[0]: [("%s:control" % sets[0], roots.names(sets[0])["try_sign_with_rng"], {"taint": "1", "rng": "ok", "sk": "keygen", "len.ctx": "0..255"})]}
    ctl, cerrs = aicheck.run_sets(ctl_jobs, flags="rel")
    for s in sets:
        r = res.get(s)
        if r is None:
            vlib.fail_closed(rep, "driver:%s" % s, errs.get(s))
            continue
        if r["unmodelled"] or r["unsupported"]:
            vlib.fail_closed(rep, "unmodelled:%s" % s, {"unmodelled": r["unmodelled"], "unsupported": r["unsupported"]})
        byid = {j["id"]: j for j in r["jobs"]}
        for jid, j in byid.items():
            bad = j.get("error") or j.get("over_budget") or (j.get("result") is None)
            ob(not bad, "job:%s" % jid.split(":", 1)[1], {"rule": "fail-closed: the abstract run completed", "job": jid, "error": j.get("error"), "over_budget": j.get("over_budget")})
        d = byid.get("%s:dudect" % s)
        if d and isinstance(d.get("result"), dict):
            ob(list(d["result"].get("enum", {}).keys()) == ["v0"], "R1:completes:%s" % s, {"rule": "the CT-mode pipeline runs to completion (Ok) for every RNG output", "result": d["partitions"]})
            ob(d["steps"] > 1000000, "R1:floor-steps", {"rule": "fail-closed: the whole keygen+sign pipeline was analysed", "steps": d["steps"]})
        leaks = r["leaks"]
        for k, site in sorted(leaks.items()):
            leak_points += 1
            fn, kind, what = (k.split("|") + ["", ""])[:3]
            key = "%s|%s" % (aicheck.strip_generics(fn), kind)
            if allowed(key):
                if len(samples) < 4:
                    samples.append({"allow_listed_leak_point": key, "site": site, "what": what})
                continue
            ob(False, "leak:%s" % key, {"rule": "no branch / index / variable-time operation / short-circuit depends on tainted (secret-derived) data that is not a constant",
                                        "function": fn, "kind": kind, "detail": what, "site": site, "set": s})
        ob(True, "R1R2:%s" % s, {})
        samples.append({"set": s, "pipeline_steps": d["steps"] if d else None, "kernels_analysed": len(byid) - 1, "leak_points_reported": len(leaks)})
    c = ctl.get(sets[0])
    if c is None:
        vlib.fail_closed(rep, "driver:control", cerrs.get(sets[0]))
    else:
        cl = [k for k in c["leaks"] if "sign_internal" in k and "|branch|" in k]
        ob(len(cl) >= 1, "R3:positive-control", {"rule": "the taint analysis reports the (public-data) rejection branches of normal signing", "leaks_seen": sorted(c["leaks"])[:10]})
        samples.append({"positive_control_leaks_in_normal_mode": sorted(c["leaks"])[:6]})
    cov = {
        "obligations": obligations, "discharged": discharged,
        "checker_cmd": "python3 bin/check C14 (driver ai mode with taint tracking; --features dudect; debug assertions / overflow checks off)",
        "trusted_base": ["MIR-level leakage model (what LLVM / the CPU do afterwards is not analysed)", "hash permutations are data-independent", "rules/ct_allow.json"],
        "samples": samples,
        "allow_list": allow,
        "explanation": "taint x value abstract interpretation: a tainted but provably constant condition is not a leak (that is how CTEST neutralises rejections); one abstract path covers every RNG output",
    }
    return rep.finish("proof", cov, ["stated leakage model", "abstract interpreter soundness"])


if __name__ == "__main__":
    tier = "quick"
    if "--tier" in sys.argv:
        tier = sys.argv[sys.argv.index("--tier") + 1]
    sys.exit(main(tier))
