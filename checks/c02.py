"""C02 - verification accepts exactly what FIPS 204 Verify accepts (rejection side + decision structure).

Decided statically (all for every member of the stated input classes / for all inputs):
  R1  malformed hint encodings: every class of lib/hintclasses.py that FIPS 204 Alg. 21 rejects,
      embedded in an otherwise ARBITRARY signature, makes verify() DEFINITELY return false
      (all public keys, messages, contexts <= 255); representative classes also through
      hash_verify and _internal_verify.
  R2  response-vector norm: signatures in which one coefficient field (first / last coefficient,
      first / last polynomial) encodes |z| in [gamma1 - beta, gamma1] (both signs, and exactly
      gamma1 - beta) with every other byte arbitrary are definitely rejected.
  R3  decision structure: verify_internal compares the whole commitment hash - exactly one array
      comparison of two lambda/4-byte arrays, one decoded from the signature, the other read
      (lambda/4 bytes at offset 0) from SHAKE256(mu || w1Encode(.)); UseHint is applied to all
      256*k coefficients; SampleInBall absorbs the whole decoded c-tilde.
  R4  arithmetic faithfulness: no overflow / self-check obligation on any verify path for
      arbitrary (pk, sig) (the D2 class of defects), beyond the assumed ones of rules/assume.json.
  R5  contexts longer than 255 bytes are rejected (see C07; re-checked here for verify roots).
  R6  UseHint (both gamma2, h = 0 and 1), Decompose / HighBits / LowBits and mod+- equal their FIPS
      definitions on their whole domain (engine of C15): w1' is the FIPS w1' for every w'_approx, h;
      CoeffFromThreeBytes (ExpandA's kernel) equals Alg. 14 on all 2^24 inputs.
  R7  the ring arithmetic of Alg. 8, symbolically: NTT applied to exactly the decoded z and to the
      challenge; w'_approx = NTT^-1(A-hat o NTT(z) - c-hat o (t1*2^d)) with the precompute's
      Montgomery factor cancelling; UseHint applied to its coefficients.  With C18 F and C11 D6
      every step of Verify_internal is accounted for.
Acceptance side (valid signatures are accepted) depends on hash values: only C01's clauses.
"""
import os
import sys

sys.path.insert(0, os.path.join(os.path.dirname(os.path.abspath(__file__)), "..", "lib"))
sys.path.insert(0, os.path.dirname(os.path.abspath(__file__)))
import absorb
import aicheck
import hintclasses
import roots
import structure as st
import vlib
import c15


def bitlen(x):
    return x.bit_length()


def z_classes(P):
    """(name, {sig byte offset: (lo, hi)}) classes forcing one |z_i| >= gamma1 - beta"""
    g1, beta, l = P["gamma1"], P["beta"], P["l"]
    lam4 = P["lam"] // 4
    c = 1 + bitlen(g1 - 1)
    polylen = 32 * c
    topmask = (1 << (c - 16)) - 1
    out = []
    for j in sorted(set([0, l - 1])):
        base = lam4 + j * polylen
        # coefficient 0: field = b0 + 256*b1 + 65536*(b2 & topmask); z = gamma1 - field
        out.append(("z[%d][0]>=bound" % j, {base: (0, beta), base + 1: (0, 0), base + 2: (0, 0)}))
        out.append(("z[%d][0]==bound" % j, {base: (beta, beta), base + 1: (0, 0), base + 2: (0, 0)}))
        out.append(("z[%d][0]<=-bound" % j, {base: (256 - beta, 255), base + 1: (255, 255), base + 2: (topmask, topmask)}))
        out.append(("z[%d][0]==-bound" % j, {base: (256 - beta, 256 - beta), base + 1: (255, 255), base + 2: (topmask, topmask)}))
        # coefficient 255: its two top bytes zero => field <= 2^(c-16) - 1 <= beta
        out.append(("z[%d][255]>=bound" % j, {base + polylen - 1: (0, 0), base + polylen - 2: (0, 0)}))
    return out


def main(tier):
    rep = vlib.Report("C02", tier)
    cnt = [0, 0]

    def ob(ok, key, detail):
        cnt[0] += 1
        if ok:
            cnt[1] += 1
        else:
            rep.violation(key, detail)

    samples, n_classes = analyse(rep, ob, aicheck.sets_for(tier))
    ring_arithmetic(rep, ob, aicheck.sets_for(tier) if tier != "quick" else ["44", "65"], samples)
    # R6: the scalar kernels of the decision equal their FIPS definitions on the whole domain
    ksamples, kstats = c15.analyse(rep, ob, tier, {"use_hint", "decompose", "center_mod", "three_bytes"}, prefix="R6:")
    cov = {
        "obligations": cnt[0], "discharged": cnt[1],
        "checker_cmd": "python3 bin/check C02 (driver ai mode on abstract signature classes through verify / hash_verify / _internal_verify)",
        "trusted_base": ["abstract interpreter soundness", "lib/hintclasses.py verdicts follow FIPS 204 Alg. 21", "hash model"],
        "samples": samples, "input_classes": n_classes, "exhaustive": False,
        "explanation": "rejection side: each class (an arbitrary signature with a few pinned bytes) is decided for all its members; acceptance of valid signatures is not decidable without hash values",
    }
    return rep.finish("other", cov, ["acceptance side not decided", "class family covers the taxonomy, not all byte strings"])


def ring_arithmetic(rep, ob, sets, samples):
    """R7: one symbolic run of verify: matrix entries, the decoded z, the challenge, the public key's precompute and the
    outputs of the transforms are named symbols; products of two symbols are interned product symbols; modulo q."""
    Q = 8380417
    RINV = pow(pow(2, 32, Q), Q - 2, Q)
    jobs = {}
    for s in sets:
        n = roots.names(s)
        jobs[s] = [("%s:ring" % s, n["verify"], {"pk": "from_bytes", "len.ctx": "0..255", "modulus": str(Q), "lin.cap": "600", "atoms.key": "1",
                                                  "atomize": "hashing::rej_ntt_poly|encodings::sig_decode|hashing::sample_in_ball|ntt::ntt|ntt::inv_ntt",
                                                  "dump_args": "ntt::ntt|ntt::inv_ntt|high_low::use_hint"})]
    res, errs = aicheck.run_sets(jobs, timeout=6000)

    def parse(p):
        out = []
        for line in p["data"]["forms"].split("\n"):
            if line == "":
                continue
            if line == "-":
                out.append(None)
                continue
            m, d, terms = line.split("|", 2)
            out.append((int(m), int(d), {t.rsplit(":", 1)[0]: int(t.rsplit(":", 1)[1]) for t in terms.split(",") if t}))
        return out
    for s in sets:
        P = aicheck.PARAMS[s]
        k, l = P["k"], P["l"]
        r = res.get(s)
        if r is None or r["jobs"][0].get("error"):
            vlib.fail_closed(rep, "driver-ring:%s" % s, (errs.get(s) or str(r and r["jobs"][0].get("error")))[-400:])
            continue
        pr = [p for p in r["jobs"][0]["probes"] if p["what"] == "arg_forms"]
        nt = [p for p in pr if p["inst"].startswith("ntt::ntt::<")]
        iv = [p for p in pr if p["inst"].startswith("ntt::inv_ntt::<")]
        inv_ = lambda p: "verify_internal" in p["data"].get("path", "")
        nt_v = [(i, p) for i, p in enumerate(nt) if inv_(p)]
        iv_v = [(i, p) for i, p in enumerate(iv) if inv_(p)]
        uh = [parse(p) for p in pr if p["inst"].startswith("high_low::use_hint") and inv_(p)]
        ok = len(nt_v) == 2 and len(iv_v) == 1 and len(uh) >= 8
        okz = okw = oku = False
        detail = {"ntt_calls": len(nt_v), "inv_ntt_calls": len(iv_v), "use_hint_calls_sampled": len(uh)}
        if ok:
            (oz, pz), (oc, pc) = nt_v
            fz, fc = parse(pz), parse(pc)
            zb = sorted({nm.split("[")[0] for f in fz if f for nm in f[2]})
            cb = sorted({nm.split("[")[0] for f in fc if f for nm in f[2]})
            okz = len(fz) == 256 * l and len(zb) == 1 and zb[0].startswith("sig_decode#") and all(f == (0, 0, {"%s[%d]" % (zb[0], i): 1}) for i, f in enumerate(fz)) \
                and len(fc) == 256 and len(cb) == 1 and cb[0].startswith("sample_in_ball#") and all(f == (0, 0, {"%s[%d]" % (cb[0], i): 1}) for i, f in enumerate(fc))
            o0, p0 = iv_v[0]
            f0 = parse(p0)
            def want(i):
                d = {"(rej_ntt_poly#%d[%d]*ntt#%d[%d])" % ((i // 256) * l + j, i % 256, oz, j * 256 + i % 256): 1 for j in range(l)}
                d["(ntt#%d[%d]*pk.t1_d2_hat_mont[%d])" % (oc, i % 256, i)] = Q - RINV
                return (Q, 0, d)
            okw = len(f0) == 256 * k and all(f == want(i) for i, f in enumerate(f0))
            oku = all(len(f) == 3 and f[0] == (0, P["gamma2"], {}) and f[2] == (0, 0, {"inv_ntt#%d[%d]" % (o0, i): 1}) for i, f in enumerate(uh))
            detail.update({"w_approx_arg_first": p0["data"]["forms"].split("\n")[0][:260], "use_hint_first": uh[:1]})
        ob(ok, "R7:verify-analysed", {"rule": "fail-closed: the symbolic run reached the transforms of verify_internal", "set": s, **detail})
        ob(okz, "R7:transform-inputs", {"rule": "R7 the NTT is applied to exactly the decoded z, and to the SampleInBall output", "set": s, **detail})
        ob(okw, "R7:w-approx", {"rule": "R7 w'_approx = NTT^-1( sum_j A-hat[i][j] o NTT(z)[j] - c-hat o (t1 * 2^d precompute) * 2^-32 ), unit / -2^-32 coefficients modulo q", "set": s, **detail})
        ob(oku, "R7:use-hint-argument", {"rule": "R7 UseHint is applied to the coefficients of w'_approx (first coefficients; the closure is index-uniform)", "set": s, **detail})
        samples.append({"set": s, "R7": detail})


def analyse(rep, ob, sets, rules=("R1", "R2", "R3", "R4", "R5"), prefix=""):
    if prefix:
        ob0 = ob
        ob = lambda ok, key, detail: ob0(ok, prefix + key, detail)
    samples = []
    n_classes = 0
    jobs = {}
    meta = {}
    for s in sets:
        P = aicheck.PARAMS[s]
        n = roots.names(s)
        k, l, om = P["k"], P["l"], P["omega"]
        lam4 = P["lam"] // 4
        hint_off = P["sig_len"] - om - k
        J = []
        M = {}
        fam = [f for f in hintclasses.families(k, om) if f[1] == "err"]
        for cid, kind, ov in (fam if "R1" in rules else []):
            jid = "%s:hint:%s" % (s, cid)
            J.append((jid, n["verify"], {"pk": "from_bytes", "len.ctx": "0..255", "bytes.arg2": hintclasses.spec_string(ov, hint_off)}))
            M[jid] = ("R1", cid, "verify")
        for root in (("hash_verify", "internal_verify") if "R1" in rules else ()):
            for cid, kind, ov in [f for f in fam if f[0] in ("count-above-omega@poly0", "nonzero-padding@%d:count%d" % (om - 1, om - 1), "position-order@poly0:a100", "count-below-index@poly1:spread")]:
                jid = "%s:hint:%s:%s" % (s, root, cid)
                J.append((jid, n[root], {"pk": "from_bytes", "len.ctx": "0..255", "bytes.arg2": hintclasses.spec_string(ov, hint_off)}))
                M[jid] = ("R1", cid, root)
        empty_hint = hintclasses.spec_string(hintclasses.canonical(k, om, [0] * k), hint_off)
        for cname, ov in (z_classes(P) if "R2" in rules else []):
            jid = "%s:z:%s" % (s, cname)
            spec = ";".join("%d:%d..%d" % (p, lo, hi) for p, (lo, hi) in sorted(ov.items())) + ";" + empty_hint
            J.append((jid, n["verify"], {"pk": "from_bytes", "len.ctx": "0..255", "bytes.arg2": spec}))
            M[jid] = ("R2", cname, "verify")
        # unconstrained runs: structure + arithmetic, for every public-key provenance
        for prod in (roots.PK_PRODUCERS if ("R3" in rules or "R4" in rules) else []):
            for root in ("verify", "hash_verify", "internal_verify"):
                jid = "%s:any:%s/%s" % (s, root, prod)
                J.append((jid, n[root], {"pk": prod, "len.ctx": "0..255", "probe": "hashing::rej_ntt_poly|hashing::sample_in_ball"}))
                M[jid] = ("R34", prod, root)
        for root in (("verify", "hash_verify", "internal_verify") if "R5" in rules else ()):
            for cn, rng in (("eq256", "256..256"), ("ge257", "257..max")):
                jid = "%s:ctx:%s:%s" % (s, root, cn)
                J.append((jid, n[root], {"pk": "from_bytes", "len.ctx": rng}))
                M[jid] = ("R5", cn, root)
        jobs[s] = J
        meta[s] = M
    res, errs = aicheck.run_sets(jobs)
    assume = aicheck.load_assume()
    for s in sets:
        r = res.get(s)
        P = aicheck.PARAMS[s]
        if r is None:
            vlib.fail_closed(rep, "driver:%s" % s, errs.get(s))
            continue
        if r["unmodelled"] or r["unsupported"]:
            vlib.fail_closed(rep, "unmodelled:%s" % s, {"unmodelled": r["unmodelled"], "unsupported": r["unsupported"]})
        lam4 = P["lam"] // 4
        for j in r["jobs"]:
            rule, cname, root = meta[s][j["id"]]
            if j.get("error") or j.get("over_budget") or j.get("result") is None:
                vlib.fail_closed(rep, "job:%s" % j["id"], j.get("error") or "over budget")
                continue
            res_ = j["result"]
            is_false = isinstance(res_, dict) and res_.get("int") == [0, 0]
            if rule in ("R1", "R2", "R5"):
                n_classes += 1
                what = {"R1": "malformed hint encoding (%s)" % cname, "R2": "response coefficient with |z| >= gamma1 - beta (%s)" % cname, "R5": "context length %s" % cname}[rule]
                ob(is_false, "%s:%s:%s" % (rule, root, cname),
                   {"rule": "%s every signature of the class is rejected: %s" % (rule, what), "entry": j["root"], "set": s, "abstract_result": j["partitions"],
                    "meaning": "some member of the class is not definitely rejected by %s" % root})
                if len(samples) < 6 and rule == "R2":
                    samples.append({"set": s, "class": cname, "entry": root, "abstract_result": j["partitions"]})
            elif "R3" in rules:
                # R3 structure
                eqs = [p["data"] for p in j["probes"] if p["what"] == "array_eq" and "verify_internal" in p["data"]["path"]]
                ok = len(eqs) == 1 and eqs[0]["len_a"] == str(lam4) and eqs[0]["len_b"] == str(lam4) and eqs[0]["src_a"] != eqs[0]["src_b"]
                ob(ok, "R3:full-hash-compare:%s" % root, {"rule": "R3 the decision compares all lambda/4 bytes of c-tilde with the recomputed hash", "entry": j["root"], "set": s, "comparisons": eqs})
                roles = st.hash_roles(j, "pk.tr")
                ch = roles["commit"]
                okc = False
                rd = []
                if len(ch) == 1:
                    w1len = 32 * P["k"] * bitlen((P["q"] - 1) // (2 * P["gamma2"]) - 1)
                    rd = absorb.reads(j, ch[0]["id"])
                    okc = ch[0]["items"][1]["len"] == [w1len, w1len] and len(rd) == 1 and rd[0]["len"] == str(lam4) and rd[0]["off"] == "0..0" and rd[0]["dest_start"] == "0" \
                        and len(eqs) == 1 and rd[0]["dest"] in (eqs[0]["src_a"], eqs[0]["src_b"])
                ob(okc, "R3:commitment-hash:%s" % root, {"rule": "R3 c-tilde' = first lambda/4 bytes of H(mu || w1Encode(w1')), and it is one side of the final comparison", "entry": j["root"], "set": s,
                                                          "sites": [x["rendered"][:160] for x in ch], "reads": rd})
                sib = roles["sample_in_ball"]
                oks = len(sib) == 1 and len(sib[0]["items"]) == 1 and sib[0]["items"][0]["len"] == [lam4, lam4] and str(sib[0]["items"][0].get("tag", "")).endswith("[0..%d]" % lam4) \
                    and str(sib[0]["items"][0].get("tag", "")).startswith("in.")
                ob(oks, "R3:challenge-from-whole-ctilde:%s" % root, {"rule": "R3 SampleInBall absorbs the whole decoded c-tilde (exact copy of the first lambda/4 signature bytes)", "entry": j["root"], "set": s,
                                                                     "sites": [x["rendered"][:160] for x in sib], "tags": [x["items"][0].get("tag") for x in sib]})
                st.sampler_fill(j, ob, "R3:%s/%s" % (root, cname), {"rej_ntt_poly": P["k"] * P["l"]})
                st.sample_in_ball_shape(j, P, ob, "R3:%s/%s" % (root, cname), sib)
                uh = sum(v for c, v in j["calls"].items() if c == "high_low::use_hint")
                ob(uh == 256 * P["k"], "R3:use-hint-all:%s" % root, {"rule": "R3 UseHint is applied to all 256*k coefficients", "entry": j["root"], "set": s, "use_hint_calls": uh})
        # R4: obligations on verify paths
        vsites = [x for x in r["sites"] if x["violated"]] if "R4" in rules else []
        viol, assumed, _ = aicheck.classify(vsites, assume)
        for x in viol:
            ob(False, "R4:" + aicheck.stable_key(x), aicheck.site_report(x))
        ob(True, "R4:%s" % s, {})
    return samples, n_classes


if __name__ == "__main__":
    tier = "quick"
    if "--tier" in sys.argv:
        tier = sys.argv[sys.argv.index("--tier") + 1]
    sys.exit(main(tier))
