"""C07 - the 255-byte context limit is enforced without aliasing.

Decided by abstract interpretation of the six entry points that take a context
(try_sign_with_rng, try_hash_sign_with_rng, _internal_sign, verify, hash_verify, _internal_verify)
on three context-length classes that partition all of usize:  [0,255], {256}, [257, usize::MAX]
(message: any bytes of any length; keys: any accepted key; RNG: succeeds):
  R1  length classes {256} and [257, max]: the result is DEFINITELY Err / false and no instance of
      sign_internal / verify_internal is entered (no signature work on an over-long context);
  R2  class [0,255]: signing definitely returns Ok, verification reaches verify_internal;
  R3  at the mu absorb site reached in class [0,255], the one-byte context-length item is the
      identity of len(ctx) (exact linear form 1*len(ctx)+0 in [0,255]): the byte is never a
      truncation, so two different accepted lengths never share a byte.
"""
import os
import re
import sys

sys.path.insert(0, os.path.join(os.path.dirname(os.path.abspath(__file__)), "..", "lib"))
import aicheck
import roots
import vlib

CLASSES = [("le255", "0..255"), ("eq256", "256..256"), ("ge257", "257..max")]
SIGN = ["try_sign_with_rng", "try_hash_sign_with_rng", "internal_sign"]
VERIFY = ["verify", "hash_verify", "internal_verify"]


def jobs_for(s):
    n = roots.names(s)
    jobs = []
    for r in SIGN + VERIFY:
        for cname, rng in CLASSES:
            o = {"len.ctx": rng, "rng": "ok"}
            o["sk" if r in SIGN else "pk"] = "from_bytes"
            jobs.append(("%s:%s:%s" % (s, r, cname), n[r], o))
    return jobs


def variants(result):
    if isinstance(result, dict) and "enum" in result:
        return sorted(result["enum"].keys())
    return None


def main(tier):
    rep = vlib.Report("C07", tier)
    sets = aicheck.sets_for(tier)
    res, errs = aicheck.run_sets({s: jobs_for(s) for s in sets})
    obligations = discharged = 0
    samples = []

    def ob(ok, key, detail):
        nonlocal obligations, discharged
        obligations += 1
        if ok:
            discharged += 1
        else:
            rep.violation(key, detail)

    for s in sets:
        r = res.get(s)
        if r is None:
            vlib.fail_closed(rep, "driver:%s" % s, errs.get(s))
            continue
        if r["unmodelled"] or r["unsupported"]:
            vlib.fail_closed(rep, "unmodelled:%s" % s, {"unmodelled": r["unmodelled"], "unsupported": r["unsupported"]})
        jobs = {j["id"]: j for j in r["jobs"]}
        if len(jobs) != 18:
            vlib.fail_closed(rep, "jobs:%s" % s, "expected 18 jobs, got %d" % len(jobs))
        for root in SIGN + VERIFY:
            for cname, rng in CLASSES:
                j = jobs.get("%s:%s:%s" % (s, root, cname))
                if j is None or j.get("error") or j.get("over_budget") or j.get("result") is None:
                    vlib.fail_closed(rep, "job:%s:%s:%s" % (s, root, cname), j and (j.get("error") or "over budget / no result"))
                    continue
                calls = j["calls"]
                worker = [c for c in calls if c.startswith("ml_dsa::sign_internal") or c.startswith("ml_dsa::verify_internal")]
                res_ = j["result"]
                if cname != "le255":
                    if root in SIGN:
                        ok = variants(res_) == ["v1"]
                    else:
                        ok = isinstance(res_, dict) and res_.get("int") == [0, 0]
                    ob(ok, "R1:rejects:%s:%s" % (root, cname),
                       {"rule": "R1 context length %s is definitely rejected" % rng, "entry": j["root"], "set": s, "abstract_result": j["partitions"],
                        "meaning": "some context of that length is not rejected"})
                    ob(not worker, "R1:no-work:%s:%s" % (root, cname),
                       {"rule": "R1 no signing/verification work is started for an over-long context", "entry": j["root"], "set": s, "entered": worker})
                else:
                    if root in SIGN:
                        ok = variants(res_) == ["v0"]
                    else:
                        ok = bool(worker)
                    ob(ok, "R2:accepts:%s" % root,
                       {"rule": "R2 every context of 0..255 bytes passes the guard", "entry": j["root"], "set": s, "abstract_result": j["partitions"], "entered": worker})
                    # R3: the length byte at the mu site
                    # every hash instance of the run is a candidate (wherever in the call tree mu is computed)
                    xofs = [p for p in j["probes"] if p["what"] == "xof"]
                    mu = [p for p in xofs if "len(ctx)" in p["data"]["absorbed"] or re.search(r"in\.ctx", p["data"]["absorbed"])]
                    if root.startswith("internal"):
                        # the deprecated internal interface hashes tr || M' only: ctx is not absorbed (documented)
                        continue
                    ob(len(mu) >= 1, "R3:mu-site:%s" % root, {"rule": "fail-closed: the mu absorb site mentioning ctx was found", "entry": j["root"], "set": s,
                                                              "xof_sites": [p["data"]["absorbed"][:200] for p in xofs][:4]})
                    for p in mu:
                        ab = p["data"]["absorbed"]
                        ident = re.search(r"#1\{1\*len\(ctx\) \+ 0 in \[0,255\]\}", ab) is not None
                        ob(ident, "R3:length-byte:%s" % root,
                           {"rule": "R3 the absorbed context-length byte equals len(ctx) for every accepted length", "entry": j["root"], "set": s, "absorbed": ab,
                            "meaning": "the length byte is a truncation / not the length: distinct contexts can alias"})
                        if len(samples) < 6:
                            samples.append({"set": s, "entry": root, "mu_absorb_list": ab})
    cov = {
        "obligations": obligations, "discharged": discharged,
        "checker_cmd": "python3 bin/check C07 (driver ai mode, 6 entry points x 3 context-length classes x sets)",
        "trusted_base": ["abstract interpreter soundness", "SHAKE256 absorbs exactly the bytes passed to update (hash model)"],
        "samples": samples,
        "explanation": "three length classes partition usize; definite results on each class are statements about every length in it",
    }
    return rep.finish("proof", cov, ["abstract interpreter soundness"])


if __name__ == "__main__":
    tier = "quick"
    if "--tier" in sys.argv:
        tier = sys.argv[sys.argv.index("--tier") + 1]
    sys.exit(main(tier))
