"""C01 - honest signatures verify (necessary conditions decided statically).

Acceptance of an honest signature finally rests on the ring identity w - c*s2 + c*t0 close to
A*z - c*t1*2^d and on hash values; that part is not decided.  Decided, each for every key, message,
context and generator output of the stated class:
  A1  signer and verifier format M' identically in every mode (pure, SHA-256, SHA-512, SHAKE128)
      and as FIPS 204 prescribes (rules R1-R4 of C06 for both sides).
  A2  no early rejection: for every verification entry point (verify; hash_verify x 3 pre-hash
      functions; _internal_verify), every context-length class {0}, [1,254], {255} and every public-key
      provenance (deserialised, generated, derived) the abstract result is NOT definitely false, and
      signing with ctx in [0,255] definitely returns Ok for deserialised and generated private keys.
      (If a class were definitely rejected, every honest signature of that class would fail.)
  A3  the bounds the signer enforces before emitting are the ones the verifier accepts:
      emitted ||z|| <= gamma1-beta-1 (path condition at sigEncode) and the verifier's may-accept
      partition requires exactly ||z|| <= gamma1-beta-1; emitted hint weight <= omega and
      HintBitUnpack accepts every canonical encoding of weight up to and including omega;
      BitUnpack(gamma1-1, gamma1) accepts every coefficient BitPack can have emitted.
  A4  both sides hash mu | w1Encode(.) of the same length and compare / emit lambda/4 bytes.
  A5  UseHint, Decompose / HighBits / LowBits and MakeHint equal their FIPS definitions on their whole
      domain (C15 engine; also CoeffFromThreeBytes, the kernel of ExpandA both sides run), so the FIPS lemma UseHint(MakeHint(z, r), r) = HighBits(r + z) applies.
  A6  key provenance: the public key derived from a private key carries that key's rho and its tr
      (copied, or re-hashed with SHAKE256 over all PK_LEN bytes) and expands A from that rho
      (rules D1-D4 of C11): the mu the verifier computes with a derived key is the signer's mu.
"""
import json
import os
import sys

sys.path.insert(0, os.path.join(os.path.dirname(os.path.abspath(__file__)), "..", "lib"))
sys.path.insert(0, os.path.dirname(os.path.abspath(__file__)))
import absorb
import aicheck
import hintclasses
import roots
import structure as st
import vlib
import c06
import c11
import c15

EXTRA = {"probe": "encodings::sig_encode|ml_dsa::verify_internal", "track_ret": "helpers::infinity_norm|Iterator::sum"}
CTX_CLASSES = (("len0", "0..0"), ("len1-254", "1..254"), ("len255", "255..255"))


def may_be_true(res):
    return isinstance(res, dict) and "int" in res and res["int"][1] >= 1


def main(tier):
    rep = vlib.Report("C01", tier)
    cnt = [0, 0]

    def ob(ok, key, detail):
        cnt[0] += 1
        if ok:
            cnt[1] += 1
        else:
            rep.violation(key, detail)

    sets = aicheck.sets_for(tier)
    samples, res = c06.analyse(rep, ob, sets, prefix="A1:", extra_opts=EXTRA, want_results=True)
    samples = samples[:3]
    # A3 / A4 on the runs of A1
    for s in sets:
        r = res.get(s)
        if r is None:
            continue
        P = aicheck.PARAMS[s]
        lam4 = P["lam"] // 4
        w1len = 32 * P["k"] * st.bitlen((P["q"] - 1) // (2 * P["gamma2"]) - 1)
        for j in r["jobs"]:
            if j.get("error") or j.get("over_budget") or j.get("result") is None:
                continue
            _, side, mode = j["id"].split(":")
            if side == "sign":
                norms, sums = st.emit_condition(j, P, s, mode, ob, "A3")
                ok_res = isinstance(j["result"], dict) and list(j["result"].get("enum", {}).keys()) == ["v0"]
                ob(ok_res, "A2:sign-always-ok:%s" % mode, {"rule": "A2 signing with ctx in [0,255] and a working generator returns Ok for every key, message, rnd", "entry": j["root"], "set": s, "result": j["partitions"]})
                where = "sign_internal"
            else:
                b = st.accept_condition(j, P, s, mode, ob, "A3")
                ob(may_be_true(j["result"]), "A2:verify-may-accept:%s:any-ctx" % mode, {"rule": "A2 verification is not definitely false", "entry": j["root"], "set": s, "result": j["partitions"]})
                where = "verify_internal"
                if len(samples) < 8:
                    samples.append({"set": s, "mode": mode, "verifier_accept_condition_on_z_norm": b})
            chs = st.hash_roles(j, "sk.tr" if side == "sign" else "pk.tr")["commit"]
            okc = len(chs) >= 1 and all(x["items"][1]["len"] == [w1len, w1len] and [d["len"] for d in absorb.reads(j, x["id"])] == [str(lam4)] for x in chs)
            ob(okc, "A4:commitment-hash-shape:%s:%s" % (side, mode), {"rule": "A4 both sides hash mu | w1Encode(.) (same length) and use lambda/4 bytes", "entry": j["root"], "set": s, "w1_len": w1len,
                                                                      "sites": [x["rendered"][:120] for x in chs[:2]]})
    # A2 classes + A3 decoder side
    jobs = {}
    for s in sets:
        n = roots.names(s)
        P = aicheck.PARAMS[s]
        k, om, g1 = P["k"], P["omega"], P["gamma1"]
        J = []
        for prod in roots.PK_PRODUCERS:
            for cname, rng in CTX_CLASSES:
                J.append(("%s|verify|pure|%s|%s" % (s, prod, cname), n["verify"], {"pk": prod, "len.ctx": rng}))
                J.append(("%s|verify|internal|%s|%s" % (s, prod, cname), n["internal_verify"], {"pk": prod, "len.ctx": rng}))
                for ph in (0, 1, 2):
                    J.append(("%s|verify|ph%d|%s|%s" % (s, ph, prod, cname), n["hash_verify"], {"pk": prod, "len.ctx": rng, "variant.ph": str(ph)}))
        J.append(("%s|sign|pure|keygen|len0-255" % s, n["try_sign_with_rng"], {"sk": "keygen", "rng": "ok", "len.ctx": "0..255"}))
        for cid, kind, ov in hintclasses.families(k, om):
            if kind == "ok":
                J.append(("%s|hint|%s" % (s, cid), "conversion::hint_bit_unpack::<%d_usize>" % k,
                          {"arg0": "%d..%d" % (om, om), "len.y_bytes": "%d..%d" % (om + k, om + k), "bytes.arg1": hintclasses.spec_string(ov)}))
        c = st.bitlen(2 * g1 - 1)
        J.append(("%s|unpack|z" % s, "conversion::bit_unpack", {"arg1": "%d..%d" % (g1 - 1, g1 - 1), "arg2": "%d..%d" % (g1, g1), "len.v": "%d..%d" % (32 * c, 32 * c), "probe": "conversion::bit_unpack"}))
        jobs[s] = J
    res2, errs2 = aicheck.run_sets(jobs)
    n_classes = 0
    for s in sets:
        r = res2.get(s)
        P = aicheck.PARAMS[s]
        if r is None:
            vlib.fail_closed(rep, "driver-classes:%s" % s, errs2.get(s))
            continue
        if r["unmodelled"] or r["unsupported"]:
            vlib.fail_closed(rep, "unmodelled:%s" % s, {"unmodelled": r["unmodelled"], "unsupported": r["unsupported"]})
        for j in r["jobs"]:
            parts = j["id"].split("|")
            if j.get("error") or j.get("over_budget") or j.get("result") is None:
                vlib.fail_closed(rep, "job:%s" % "|".join(parts[1:]), j.get("error") or "over budget")
                continue
            if parts[1] == "verify":
                n_classes += 1
                ob(may_be_true(j["result"]), "A2:verify-may-accept:%s:%s:%s" % (parts[2], parts[3], parts[4]),
                   {"rule": "A2 no class of honest inputs is definitely rejected: verification of an arbitrary signature with this mode, key provenance and context length is not definitely false",
                    "entry": j["root"], "set": s, "mode": parts[2], "public_key": parts[3], "ctx_length_class": parts[4], "abstract_result": j["partitions"]})
            elif parts[1] == "sign":
                ok_res = isinstance(j["result"], dict) and list(j["result"].get("enum", {}).keys()) == ["v0"]
                ob(ok_res, "A2:sign-always-ok:pure:keygen", {"rule": "A2 signing with a generated key returns Ok", "entry": j["root"], "set": s, "result": j["partitions"]})
            elif parts[1] == "hint":
                n_classes += 1
                got = sorted(j["result"].get("enum", {}).keys()) if isinstance(j["result"], dict) else None
                ob(got == ["v0"], "A3:hint-decoder-accepts:%s" % parts[2], {"rule": "A3 every canonical hint encoding of weight <= omega (incl. exactly omega) is accepted by HintBitUnpack", "set": s,
                                                                            "class": parts[2], "abstract_result": j["partitions"]})
            elif parts[1] == "unpack":
                pr = [p for p in j["probes"] if p["what"] == "ret" and p["inst"] == "conversion::bit_unpack"]
                ret = json.loads(pr[-1]["data"]["ret"]) if pr else {}
                ob(list(ret.get("enum", {}).keys()) == ["v0"], "A3:z-decoder-total", {"rule": "A3 BitUnpack(gamma1-1, gamma1) accepts every byte string (a+b+1 is a power of two), hence everything BitPack emitted",
                                                                                      "set": s, "variants": list(ret.get("enum", {}).keys())})
    c11.analyse(rep, ob, tier, prefix="A6:", with_use=False)
    ksamples, kstats = c15.analyse(rep, ob, tier, {"decompose", "use_hint", "make_hint", "three_bytes"}, prefix="A5:")
    cov = {
        "obligations": cnt[0], "discharged": cnt[1],
        "checker_cmd": "python3 bin/check C01 (driver ai mode: M' absorb lists of both sides, definite-result classes, path facts of emit / accept, decoder classes; kernel exactness)",
        "trusted_base": ["abstract interpreter soundness", "hash model", "FIPS 204 lemma UseHint(MakeHint(z,r),r) = HighBits(r+z) for the FIPS functions", "lib/spec.py"],
        "samples": samples, "input_classes": n_classes, "kernels": kstats,
        "explanation": "necessary conditions of completeness; the ring identity behind w1' = w1 and hence actual acceptance is not decided",
    }
    return rep.finish("other", cov, ["ring arithmetic not decided: acceptance itself is not established"])


if __name__ == "__main__":
    tier = "quick"
    if "--tier" in sys.argv:
        tier = sys.argv[sys.argv.index("--tier") + 1]
    sys.exit(main(tier))
