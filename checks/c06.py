"""C06 - signatures are bound to context, mode and pre-hash function.

Decided: the formatted message M' absorbed into mu is an INJECTIVE function of
(mode, ctx, M) resp. (mode, ctx, PH, PH(M)).  From the hash probes of the abstract run of every
external entry point (pure sign / verify; hash sign / verify x 3 pre-hash functions; ctx 0..255,
message arbitrary), at the mu site of sign_internal / verify_internal the absorb list must be
     tr(64)  |  D(1, constant)  |  L(1) = len(ctx) exactly  |  ctx (whole)  |  tail
  R1  D = 0x00 for the pure entry points, 0x01 for the hash ones (distinct constants);
  R2  (contexts of ANY length are fed to the entry points) L is the exact linear form 1*len(ctx)+0 in [0,255] -
      so no context longer than 255 bytes reaches the hash, where 256 would alias 0 - and sits BEFORE the context, and the
      context item is the whole of the caller's ctx (start 0, length = len(ctx));
  R3  pure tail = [the whole message];  hash tail = [OID(11 constant bytes), PH(M) of the table
      length];  the three OIDs are pairwise distinct, of equal length, and equal FIPS 204's;
      PH(M) is produced by exactly one hasher of the right kind over the whole message;
  R4  sign and verify build the same list for the same mode / pre-hash function.
Given R1-R3: the first two bytes after tr are a prefix-free header (mode, length), the context is
length-delimited, the hash tail is a fixed-length OID followed by the digest, so distinct
(mode, ctx, M / (PH, digest)) give distinct M'.  Collision resistance of SHAKE256 / PH is trusted.
"""
import os
import sys

sys.path.insert(0, os.path.join(os.path.dirname(os.path.abspath(__file__)), "..", "lib"))
import absorb
import aicheck
import roots
import structure as st
import vlib


def jobs_for(s, ctx="0..255"):
    n = roots.names(s)
    J = [("%s:sign:pure" % s, n["try_sign_with_rng"], {"sk": "from_bytes", "rng": "ok", "len.ctx": ctx}),
         ("%s:verify:pure" % s, n["verify"], {"pk": "from_bytes", "len.ctx": ctx})]
    for k in (0, 1, 2):
        J.append(("%s:sign:ph%d" % (s, k), n["try_hash_sign_with_rng"], {"sk": "from_bytes", "rng": "ok", "len.ctx": ctx, "variant.ph": str(k)}))
        J.append(("%s:verify:ph%d" % (s, k), n["hash_verify"], {"pk": "from_bytes", "len.ctx": ctx, "variant.ph": str(k)}))
    return J


def mu_sites(job):
    """the SHAKE256 instance whose first absorbed item is the key's 64-byte tr (exact-copy provenance of the key
    struct handed to the entry point) - bound by dataflow, wherever in the call tree it is created"""
    side = "sk.tr" if ":sign:" in job["id"] else "pk.tr"
    return [x for x in st.dedup(absorb.sites(job, "xof")) if x["kind"] == "Shake256" and x["items"] and x["items"][0]["len"] == [64, 64]
            and x["items"][0].get("tag") == side and len(x["items"]) >= 2]


def norm_items(items):
    """list comparable between sign and verify: position, lengths, constants, exact forms (no names)"""
    return [(i, tuple(it["len"]), it["consts"], it["lin"], it["whole"], "ctx" if it["src"].startswith("in.ctx") else "message" if it["src"].startswith("in.message") else "") for i, it in enumerate(items)]


def main(tier):
    rep = vlib.Report("C06", tier)
    cnt = [0, 0]

    def ob(ok, key, detail):
        cnt[0] += 1
        if ok:
            cnt[1] += 1
        else:
            rep.violation(key, detail)

    # contexts of ANY length are fed in: that the length byte is exactly len(ctx) in [0,255] at the mu site then also says
    # that no longer context ever reaches the hash (a 256-byte context would alias the empty one: 256 mod 256 = 0)
    samples = analyse(rep, ob, aicheck.sets_for(tier), ctx="0..max")
    cov = {
        "obligations": cnt[0], "discharged": cnt[1],
        "checker_cmd": "python3 bin/check C06 (driver ai mode, hash probes at the mu site of 8 entry points per set)",
        "trusted_base": ["collision resistance of SHAKE256 and of the pre-hash functions", "hash model: update() absorbs exactly its argument", "abstract interpreter soundness"],
        "samples": samples,
        "explanation": "prefix-free header (mode byte, exact length byte) + length-delimited context + fixed-length OID make M' uniquely parseable, hence injective in (mode, ctx, M / (PH, digest))",
    }
    return rep.finish("proof", cov, ["hash collision resistance", "abstract interpreter soundness"])


def analyse(rep, ob, sets, prefix="", sides=("sign", "verify"), extra_opts=None, want_results=False, ctx="0..255"):
    """M' formatting rules R1-R4 for the given parameter sets; `sides` restricts the entry points"""
    if prefix:
        ob0 = ob
        ob = lambda ok, key, detail: ob0(ok, prefix + key, detail)
    res, errs = aicheck.run_sets({s: [(a, b, dict(c, **(extra_opts or {}))) for a, b, c in jobs_for(s, ctx) if a.split(":")[1] in sides] for s in sets})
    samples = []

    for s in sets:
        r = res.get(s)
        if r is None:
            vlib.fail_closed(rep, "driver:%s" % s, errs.get(s))
            continue
        if r["unmodelled"] or r["unsupported"]:
            vlib.fail_closed(rep, "unmodelled:%s" % s, {"unmodelled": r["unmodelled"], "unsupported": r["unsupported"]})
        jobs = {j["id"]: j for j in r["jobs"]}
        lists = {}
        for jid, j in jobs.items():
            _, side, mode = jid.split(":")
            if j.get("error") or j.get("over_budget") or j.get("result") is None:
                vlib.fail_closed(rep, "job:%s" % jid, j.get("error") or "over budget")
                continue
            mus = mu_sites(j)
            ob(len(mus) == 1, "anchor:mu-site:%s:%s" % (side, mode), {"rule": "fail-closed: exactly one mu absorb site (tr first) is reached", "entry": j["root"], "set": s,
                                                                      "found": [m["rendered"][:200] for m in mus]})
            if len(mus) != 1:
                continue
            it = mus[0]["items"]
            lists[(side, mode)] = norm_items(it)
            want_d = "00" if mode == "pure" else "01"
            shape_ok = len(it) == (5 if mode == "pure" else 6)
            ob(shape_ok, "shape:%s:%s" % (side, mode), {"rule": "M' has the FIPS 204 layout tr|D|L|ctx|tail", "entry": j["root"], "set": s, "absorbed": mus[0]["rendered"]})
            if not shape_ok:
                continue
            ob(it[1]["len"] == [1, 1] and it[1]["consts"] == want_d, "R1:domain-byte:%s:%s" % (side, mode),
               {"rule": "R1 the domain separator is the constant %s" % want_d, "entry": j["root"], "set": s, "item": it[1], "absorbed": mus[0]["rendered"]})
            ob(it[2]["len"] == [1, 1] and it[2]["lin"] == "1*len(ctx) + 0 in [0,255]", "R2:length-byte:%s:%s" % (side, mode),
               {"rule": "R2 the third byte is exactly len(ctx), placed before the context", "entry": j["root"], "set": s, "item": it[2], "absorbed": mus[0]["rendered"]})
            ob(it[3]["src"].startswith("in.ctx") and it[3]["whole"] and it[3]["len"][0] == 0, "R2:context-whole:%s:%s" % (side, mode),  # (its length is bounded by the length-byte rule)
               {"rule": "R2 the whole context follows its length byte", "entry": j["root"], "set": s, "item": it[3], "absorbed": mus[0]["rendered"]})
            if mode == "pure":
                ob(it[4]["src"].startswith("in.message") and it[4]["whole"], "R3:message-whole:%s" % side,
                   {"rule": "R3 pure mode: the tail is the whole message", "entry": j["root"], "set": s, "item": it[4]})
            else:
                k = int(mode[2:])
                name, kind, oid, dlen = absorb.OIDS[k]
                ob(it[4]["len"] == [11, 11] and it[4]["consts"] == oid, "R3:oid:%s:%s" % (side, name),
                   {"rule": "R3 the OID of %s is the 11 DER bytes of FIPS 204" % name, "entry": j["root"], "set": s, "item": it[4], "expected": oid})
                ob(it[5]["len"] == [dlen, dlen], "R3:digest-length:%s:%s" % (side, name),
                   {"rule": "R3 PH(M) of %s has %d bytes" % (name, dlen), "entry": j["root"], "set": s, "item": it[5]})
                # provenance of PH(M): one hasher of the right kind over the whole message, written to phm[0..dlen]
                if kind == "Shake128":
                    hs = [x for x in absorb.sites(j, "xof") if x["kind"] == "Shake128" and x["path"].endswith("hash_message")]
                    rd = [d for x in hs for d in absorb.reads(j, x["id"])]
                    okp = len(hs) == 1 and len(hs[0]["items"]) == 1 and hs[0]["items"][0]["whole"] and hs[0]["items"][0]["src"].startswith("in.message") \
                        and len(rd) == 1 and rd[0]["len"] == str(dlen) and rd[0]["dest"] == it[5]["src"].split("[")[0] and rd[0]["dest_start"] == "0" and rd[0]["off"] == "0..0"
                    seen = {"hashers": [x["rendered"][:120] for x in hs], "reads": rd}
                else:
                    hs = [x for x in absorb.sites(j, "digest") if x["path"].endswith("hash_message")]
                    cp = [p["data"] for p in j["probes"] if p["what"] == "digest_copy"]
                    okp = len(hs) == 1 and hs[0]["kind"] == kind and len(hs[0]["items"]) == 1 and hs[0]["items"][0]["whole"] and hs[0]["items"][0]["src"].startswith("in.message") \
                        and len(cp) == 1 and cp[0]["kind"] == kind and cp[0]["dest"] == it[5]["src"].split("[")[0] and cp[0]["dest_start"] == "0" and cp[0]["dest_len"] == str(dlen)
                    seen = {"hashers": [(x["kind"], x["rendered"][:120]) for x in hs], "copies": cp}
                ob(okp, "R3:prehash:%s:%s" % (side, name), {"rule": "R3 PH(M) is %s over the whole message, stored at bytes 0..%d of the buffer that mu absorbs" % (name, dlen), "entry": j["root"], "set": s, "seen": seen})
            if len(samples) < 8:
                samples.append({"set": s, "entry": side, "mode": mode, "mu_absorb_list": mus[0]["rendered"]})
        for mode in ("pure", "ph0", "ph1", "ph2"):
            a, b = lists.get(("sign", mode)), lists.get(("verify", mode))
            if a is not None and b is not None:
                ob(a == b, "R4:sign-verify-agree:%s" % mode, {"rule": "R4 sign and verify format M' identically", "set": s, "sign": a, "verify": b})
        oids = {absorb.OIDS[k][2] for k in absorb.OIDS}
        ob(len(oids) == 3 and len({len(o) for o in oids}) == 1, "R3:oid-table", {"rule": "the three OIDs are pairwise distinct and of equal length"})
    return (samples, res) if want_results else samples


if __name__ == "__main__":
    tier = "quick"
    if "--tier" in sys.argv:
        tier = sys.argv[sys.argv.index("--tier") + 1]
    sys.exit(main(tier))
