"""C12 - RNG failure is reported, and all drawn randomness is used.

  R1 (who-may-call, facts)   over every MIR body of the crate (generic or not) and every reachable
      instance, the only generator method called is `RngCore::try_fill_bytes`; `fill_bytes`,
      `next_u32`, `next_u64` (which panic on failure) have zero call sites.  Positive control:
      the same rule must match the fixture crate.
  R2 (fault enumeration, abstract interpretation)  for each randomised entry point
      (try_keygen_with_rng, try_sign_with_rng, try_hash_sign_with_rng [+ dudect entry in thorough])
      and each request index i the entry point can issue, the run in which exactly request i
      fails (buffer possibly partially written) and all others succeed returns DEFINITELY Err,
      enters neither key_gen_internal nor sign_internal after the failure... and raises no panic
      obligation; the all-succeed run returns definitely Ok (ctx <= 255).
  R3 (coverage of the draw)  each operation issues exactly one request; it covers the whole
      32-byte buffer; every one of its 32 bytes (RNG taint on all bytes) is absorbed: as the
      first item of H(xi || k || l) in key generation, and as the middle 32-byte item of
      H(K || rnd || mu) in signing.  SHAKE256 is trusted to depend on every absorbed byte.
  R4 (OS-RNG wrappers, facts)  try_keygen / try_sign / try_hash_sign construct a zero-sized
      `OsRng` value per call and pass `&mut` of it to the `_with_rng` sibling; nothing else.
"""
import os
import re
import sys

sys.path.insert(0, os.path.join(os.path.dirname(os.path.abspath(__file__)), "..", "lib"))
import aicheck
import roots
import vlib

FORBIDDEN = r"(^|::)RngCore::(fill_bytes|next_u32|next_u64)$|(^|::)FakeRng::(fill_bytes|next_u32)$"
ENTRIES = ["try_keygen_with_rng", "try_sign_with_rng", "try_hash_sign_with_rng"]


def jobs_for(s):
    n = roots.names(s)
    jobs = []
    for e in ENTRIES:
        for mode in ("ok", "fail0", "fail1"):
            o = {"rng": mode, "len.ctx": "0..255", "taint": "1"}
            if e != "try_keygen_with_rng":
                o["sk"] = "from_bytes"
            jobs.append(("%s:%s:%s" % (s, e, mode), n[e], o))
    return jobs


def variants(result):
    if isinstance(result, dict) and "enum" in result:
        return sorted(result["enum"].keys())
    return None


def main(tier):
    rep = vlib.Report("C12", tier)
    sets = aicheck.sets_for(tier)
    obligations = discharged = 0
    samples = []

    def ob(ok, key, detail):
        nonlocal obligations, discharged
        obligations += 1
        if ok:
            discharged += 1
        else:
            rep.violation(key, detail)

    # ---- R1 / R4 on facts
    with vlib.Scratch() as sc:
        facts, err, dt = vlib.run_driver(sc, "facts", flags="dbg", tag="c12")
    with vlib.Fixture("forget") as fx:
        ffx, err2, dt2 = vlib.run_driver(fx, "facts", flags="dbg", tag="fx", target="target-fixture")
    if facts is None:
        vlib.fail_closed(rep, "driver-facts", err[-2000:])
    else:
        sites = [g for g in facts["generic_calls"] if re.search(FORBIDDEN, g["callee"])]
        for i in facts["instances"]:
            for c in i["calls"]:
                if c.get("def") and re.search(FORBIDDEN, c["def"]):
                    sites.append({"in": i["name"], "callee": c["def"], "site": c["site"]})
        rng_calls = [g for g in facts["generic_calls"] if re.search(r"RngCore::try_fill_bytes$", g["callee"])]
        ob(len(rng_calls) >= 3, "R1:floor", {"rule": "fail-closed: at least the 3 try_fill_bytes call sites counted by hand are seen", "found": rng_calls})
        for g in sites:
            ob(False, "R1:infallible-rng-method:%s" % g["in"], {"rule": "R1 only the fallible try_fill_bytes may be called on the generator", **g})
        if not sites:
            ob(True, "R1", {})
        ctl = [g for g in (ffx or {}).get("generic_calls", []) if re.search(FORBIDDEN, g["callee"])]
        ob(len(ctl) >= 2, "R1:positive-control", {"rule": "the who-may-call rule matches fill_bytes/next_u32 in the fixture", "matched": ctl, "err": None if ffx else (err2 or "")[-800:]})
        # R4 wrappers
        by = {i["name"]: i for i in facts["instances"]}
        for s in ["44", "65", "87"]:
            n = roots.names(s)
            for w, sib in (("trait_try_keygen", "try_keygen_with_rng"), ("try_sign", "try_sign_with_rng"), ("try_hash_sign", "try_hash_sign_with_rng")):
                inst = by.get(n[w])
                if inst is None:
                    vlib.fail_closed(rep, "anchor:%s:%s" % (w, s), "wrapper instance not found: %s" % n[w])
                    continue
                calls = inst["calls"]
                want = n[sib].replace(roots.RNG, "rand_core::OsRng")
                ok = len(calls) == 1 and calls[0].get("resolved") == want
                rng_arg = None
                if calls:
                    for t, sz in zip(calls[0]["arg_tys"], calls[0].get("arg_pointee_sizes", [])):
                        if "OsRng" in t:
                            rng_arg = (t, sz)
                ob(ok and rng_arg is not None and rng_arg[1] == 0 and "mut" in rng_arg[0], "R4:os-wrapper:%s" % w,
                   {"rule": "R4 the OS-RNG wrapper only forwards to its _with_rng sibling with &mut of a zero-sized, per-call OsRng", "wrapper": n[w], "set": s,
                    "calls": [c.get("resolved") or c.get("def") for c in calls], "rng_argument": rng_arg, "site": inst["site"]})
            m = by.get(n["mod_try_keygen"])
            ob(m is not None and len(m["calls"]) == 1 and m["calls"][0].get("resolved") == n["trait_try_keygen"], "R4:os-wrapper:mod_try_keygen",
               {"rule": "R4 module-level try_keygen only forwards to KG::try_keygen", "set": s, "calls": m and [c.get("resolved") for c in m["calls"]]})

    # ---- R2 / R3 by abstract interpretation
    res, errs = aicheck.run_sets({s: jobs_for(s) for s in sets})
    for s in sets:
        r = res.get(s)
        if r is None:
            vlib.fail_closed(rep, "driver:%s" % s, errs.get(s))
            continue
        if r["unmodelled"] or r["unsupported"]:
            vlib.fail_closed(rep, "unmodelled:%s" % s, {"unmodelled": r["unmodelled"], "unsupported": r["unsupported"]})
        jobs = {j["id"]: j for j in r["jobs"]}
        for e in ENTRIES:
            ok_job = jobs.get("%s:%s:ok" % (s, e))
            if not ok_job or ok_job.get("error") or ok_job.get("over_budget"):
                vlib.fail_closed(rep, "job:%s:%s" % (s, e), ok_job and ok_job.get("error"))
                continue
            ob(variants(ok_job["result"]) == ["v0"], "R2:ok-when-rng-ok:%s" % e,
               {"rule": "R2 with a working generator (and ctx <= 255) the operation returns Ok", "entry": ok_job["root"], "set": s, "abstract_result": ok_job["partitions"]})
            reqs = [p for p in ok_job["probes"] if p["what"] == "rng_call"]
            others = [p for p in ok_job["probes"] if p["what"] == "rng_other_method"]
            ob(not others, "R1:other-method-reached:%s" % e, {"rule": "R1 (dynamic view) no other generator method is reached", "found": [p["data"] for p in others]})
            ob(len(reqs) == 1, "R3:one-request:%s" % e, {"rule": "R3 exactly one generator request per operation", "entry": ok_job["root"], "set": s, "requests": [p["data"] for p in reqs]})
            for p in reqs:
                d = p["data"]
                ob(d["len"] == "32" and d["covers_whole_buffer"] == "true", "R3:request-32-whole:%s" % e,
                   {"rule": "R3 the request fills the whole 32-byte buffer", "entry": ok_job["root"], "set": s, "request": d, "in": p["inst"]})
            # absorption of all 32 drawn bytes
            xofs = [p for p in ok_job["probes"] if p["what"] == "xof"]
            if e == "try_keygen_with_rng":
                cand = [p for p in xofs if p["ctx"].startswith("ml_dsa::key_gen_internal") and re.search(r"^[^|]*#32[^|]*~t1all \| [^|]*#1=0x0%d" % aicheck.PARAMS[s]["k"], p["data"]["absorbed"])]
                ob(len(cand) >= 1, "R3:seed-absorbed:%s" % e,
                   {"rule": "R3 all 32 drawn bytes are the first item of H(xi || k || l)", "entry": ok_job["root"], "set": s,
                    "xof_sites_in_key_gen_internal": [p["data"]["absorbed"][:160] for p in xofs if p["ctx"].startswith("ml_dsa::key_gen_internal")][:4]})
            else:
                cand = [p for p in xofs if p["ctx"].startswith("ml_dsa::sign_internal") and re.search(r"^[^|]*#32[^|]* \| [^|]*#32[^|]*~t1all \| [^|]*#64", p["data"]["absorbed"])]
                ob(len(cand) >= 1, "R3:rnd-absorbed:%s" % e,
                   {"rule": "R3 all 32 drawn bytes are the middle item of H(K || rnd || mu)", "entry": ok_job["root"], "set": s,
                    "xof_sites_in_sign_internal": [p["data"]["absorbed"][:200] for p in xofs if p["ctx"].startswith("ml_dsa::sign_internal")][:5]})
            if cand and len(samples) < 6:
                samples.append({"set": s, "entry": e, "request": reqs[0]["data"] if reqs else None, "absorbed_at": cand[0]["ctx"], "absorb_list": cand[0]["data"]["absorbed"][:220]})
            n_req = len(reqs)
            for i in range(2):
                fj = jobs.get("%s:%s:fail%d" % (s, e, i))
                if not fj or fj.get("error") or fj.get("over_budget"):
                    vlib.fail_closed(rep, "job:%s:%s:fail%d" % (s, e, i), fj and fj.get("error"))
                    continue
                issued = [p for p in fj["probes"] if p["what"] == "rng_call" and p["data"].get("request_index") == str(i)]
                if not issued:
                    # the entry point never issues request i: the fault point does not exist
                    continue
                ob(variants(fj["result"]) == ["v1"], "R2:err-when-request-fails:%s:request%d" % (e, i),
                   {"rule": "R2 if generator request #%d fails, the operation returns Err (no key / signature)" % i, "entry": fj["root"], "set": s,
                    "abstract_result": fj["partitions"], "requests_seen": [p["data"] for p in fj["probes"] if p["what"] == "rng_call"]})
                work = [c for c in fj["calls"] if c.startswith(("ml_dsa::key_gen_internal", "ml_dsa::sign_internal"))]
                if i == 0:
                    ob(not work, "R2:no-work-after-failure:%s" % e, {"rule": "R2 no key generation / signing work after the failed draw", "entry": fj["root"], "set": s, "entered": work})
        cand = [x for x in r["sites"] if x["violated"] and any(rt.split(":")[1] in ENTRIES and rt.endswith(("fail0", "fail1")) for rt in x["roots"])]
        bad, _assumed, _used = aicheck.classify(cand, aicheck.load_assume())
        for x in bad:
            ob(False, "R2:panic-under-fault:" + aicheck.stable_key(x), aicheck.site_report(x))
    cov = {
        "obligations": obligations, "discharged": discharged,
        "checker_cmd": "python3 bin/check C12 (driver facts + ai mode with generator fault injection by request index)",
        "trusted_base": ["SHAKE256 output depends on every absorbed byte", "abstract interpreter soundness", "rand_core::OsRng is stateless (zero-sized)"],
        "samples": samples,
        "explanation": "fault points enumerated by request index (0, 1) x 3 entry points x sets; a failing request may leave the buffer partially written (havoc)",
    }
    return rep.finish("proof", cov, ["hash functions trusted", "abstract interpreter soundness"])


if __name__ == "__main__":
    tier = "quick"
    if "--tier" in sys.argv:
        tier = sys.argv[sys.argv.index("--tier") + 1]
    sys.exit(main(tier))
