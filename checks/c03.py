"""C03 - signatures are the FIPS 204 Sign output for the drawn rnd (clauses decided statically).

Decided, for every private key (deserialised or generated), message, ctx <= 255 and RNG output, from
one abstract run per external signing entry point (pure; HashML-DSA x 3 pre-hash functions):
  S1  sources: exactly one generator request, of 32 bytes filling rnd; nothing unmodelled is called
      (no other input to the computation: the signature is a function of sk, M, ctx, mode, rnd).
  S2  M' formatting is FIPS 204 Alg. 2 / 4: rules R1-R3 of C06 (domain byte 0 / 1, exact length byte,
      whole context, whole message or OID(PH) | PH(M) with the FIPS OIDs and digest lengths).
  S3  mu = H(tr | M', 64);  rho'' = H(K | rnd | mu, 64) with K the 32-byte key field that is not rho
      and rnd the generator's buffer.
  S4  ExpandMask: instance r of iteration n absorbs rho'' | IntegerToBytes(n*l + r, 2): constant
      counters in the first three (peeled) iterations, and in every later iteration kappa is
      a multiple of l (congruence carried by the loop invariant) until the 16-bit counter wraps
      (IntegerToBytes(x, 2) = x mod 2^16): kappa advances by exactly l on every path back to the
      loop head.
  S5  c~ = first lambda/4 bytes of H(mu | w1Encode(w1)); SampleInBall absorbs the whole c~.
  S6  emit condition: at the call of sigEncode the path condition bounds the four rejection
      quantities exactly as Alg. 7 lines 23 / 28: ||z|| <= gamma1-beta-1, ||r0|| <= gamma2-beta-1,
      ||ct0|| <= gamma2-1, number of hint ones <= omega  (upper bounds equal, not merely below).
  S7  A-hat = ExpandA(rho of the private key) with the FIPS index bytes and order.
  S8  the scalar kernels on the signing path equal their FIPS definitions on their whole domain:
      Decompose / HighBits / LowBits, MakeHint, mod+- (engine of C15).
Not decided: the ring arithmetic (NTT, products) - values of w, z, h as polynomials.
"""
import os
import sys

sys.path.insert(0, os.path.join(os.path.dirname(os.path.abspath(__file__)), "..", "lib"))
sys.path.insert(0, os.path.dirname(os.path.abspath(__file__)))
import absorb
import aicheck
import structure as st
import vlib
import c06
import c15

EXTRA = {"peel": "ml_dsa::sign_internal:2", "probe": "hashing::expand_mask|encodings::sig_encode", "track_ret": "helpers::infinity_norm|Iterator::sum"}


def sign_rules(j, P, s, mode, ob):
    k, l = P["k"], P["l"]
    lam4 = P["lam"] // 4
    ent = "%s" % mode
    # S1
    rc = st.rng_calls(j)
    ok1 = len(rc) == 1 and rc[0]["len"] == "32" and rc[0]["covers_whole_buffer"] == "true"
    ob(ok1, "S1:one-rng-request:%s" % ent, {"rule": "S1 exactly one generator request of 32 bytes that fills rnd", "entry": j["root"], "set": s, "requests": rc})
    rnd_dest = rc[0]["dest"] if rc else None
    # S7
    roles = st.hash_roles(j, "sk.tr")
    rho_src = st.expand_a(j, P, ob, None, "sign:%s" % ent, lambda src: src.startswith("in.self."))
    # S3 (roles are bound by dataflow: mu = the SHAKE256 instance that absorbs the key's tr first; rho'' = the one
    # that absorbs 32 | 32 | the 64 bytes read from the mu instance)
    mus = roles["mu"]
    okm, rdm = (False, None)
    if len(mus) == 1:
        rdm = absorb.reads(j, mus[0]["id"])
        okm = len(rdm) == 1 and rdm[0]["len"] == "64" and rdm[0]["off"] == "0..0" and rdm[0]["dest_start"] == "0" and len(mus[0]["items"]) >= 4
    ob(okm, "S3:mu:%s" % ent, {"rule": "S3 mu = H(tr | M', 64): one 64-byte read at offset 0", "entry": j["root"], "set": s, "sites": [x["rendered"][:160] for x in mus], "reads": rdm})
    rps = roles["rho2"]
    okr, detail = False, {}
    if len(rps) == 1:
        it = rps[0]["items"]
        rd = absorb.reads(j, rps[0]["id"])
        ok_read = len(rd) == 1 and rd[0]["len"] == "64" and rd[0]["off"] == "0..0" and rd[0]["dest_start"] == "0"
        okr = it[0]["src"].startswith("in.self.") and it[0]["src"] != rho_src and it[1]["taint_all"] & 1 == 1 and ok_read
        detail = {"absorbed": rps[0]["rendered"][:200], "reads": rd, "rho_source": rho_src, "rnd_buffer": rnd_dest}
    ob(okr, "S3:rho-second:%s" % ent, {"rule": "S3 rho'' = H(K | rnd | mu, 64): K is the 32-byte key field other than rho, every byte of rnd comes from the single generator request, mu is the output of the mu instance", "entry": j["root"], "set": s,
                                       "candidates": len(rps), **detail})
    # S4
    ems = roles["expand_mask"]
    c = 1 + st.bitlen(P["gamma1"] - 1)
    bad = None
    for t, x in enumerate(ems):
        it = x["items"]
        rd = absorb.reads(j, x["id"])
        good = len(it) == 2 and it[0]["len"] == [64, 64] and len(rps) == 1 and st.flows_from(it[0], j, rps[0], 64) and it[1]["len"] == [2, 2] and len(rd) >= 1 and all(int(d["len"]) >= 32 * c and d["off"] == "0..0" for d in rd)
        if t < 3 * l:
            good = good and it[1]["consts"] == st.le16(t)
        if not good:
            bad = {"instance": t, "absorbed": x["rendered"][:160], "expected_counter": st.le16(t) if t < 3 * l else "any", "reads": rd[:2]}
            break
    ob(len(ems) >= 3 * l and bad is None, "S4:expand-mask-counters:%s" % ent,
       {"rule": "S4 ExpandMask instance r of iteration n absorbs rho'' | IntegerToBytes(n*l + r, 2) (first three iterations analysed one by one)", "entry": j["root"], "set": s,
        "instances": len(ems), "first_mismatch": bad})
    kap = [p["data"]["args"].split(" ; ")[-1].strip() for p in st.ret_probes(j, "hashing::expand_mask")]
    okk = len(kap) >= 4 and kap[:3] == ["0", str(l), str(2 * l)]

    def hi_of(a):
        if a.isdigit():
            return int(a)
        if a.startswith("[") and "," in a:
            try:
                return int(a[1:a.index("]")].split(",")[1])
            except ValueError:
                return None
        return None

    prev_hi = 2 * l
    for a in kap[3:]:
        multiple = a.endswith("=0(mod %d)" % l) or (a.isdigit() and int(a) % l == 0)
        # the 16-bit counter wraps modulo 2^16 (IntegerToBytes(x, 2)): the congruence modulo l may only be
        # lost in the round in which the abstract value reaches the wrap-around
        wrapped = prev_hi is not None and prev_hi + l > 65535
        if not (multiple or wrapped):
            okk = False
        h = hi_of(a)
        prev_hi = 65535 if wrapped else h
    ob(okk, "S4:kappa-advances-by-l:%s" % ent, {"rule": "S4 kappa is 0, l, 2l in the first three iterations and a multiple of l in every later one until the 16-bit counter wraps: every path back to the loop head adds exactly l",
                                                  "entry": j["root"], "set": s, "l": l, "kappa_per_analysed_iteration": kap[:12]})
    # S5
    w1len = 32 * k * st.bitlen((P["q"] - 1) // (2 * P["gamma2"]) - 1)
    chs = roles["commit"]
    okc = len(chs) >= 1
    seen = []
    for x in chs:
        rd = absorb.reads(j, x["id"])
        ok_read = len(rd) == 1 and rd[0]["len"] == str(lam4) and rd[0]["off"] == "0..0" and rd[0]["dest_start"] == "0"
        seen.append({"absorbed": x["rendered"][:120], "reads": rd[:2]})
        okc = okc and x["items"][1]["len"] == [w1len, w1len] and ok_read
    ob(okc, "S5:commitment-hash:%s" % ent, {"rule": "S5 c~ = first lambda/4 bytes of H(mu | w1Encode(w1))", "entry": j["root"], "set": s, "w1_len": w1len, "lambda_div_4": lam4, "sites": seen[:3]})
    sib = roles["sample_in_ball"]
    oks = len(sib) >= 1 and all(len(x["items"]) == 1 and x["items"][0]["len"] == [lam4, lam4] and any(st.flows_from(x["items"][0], j, c_, lam4) for c_ in chs) for x in sib)
    ob(oks, "S5:challenge-from-whole-ctilde:%s" % ent, {"rule": "S5 SampleInBall absorbs the whole c~ (the lambda/4 bytes read from a commitment hash)", "entry": j["root"], "set": s,
                                                         "sites": [x["rendered"][:120] for x in sib[:3]]})
    # S6
    norms, sums = st.emit_condition(j, P, s, ent, ob, "S6")
    return {"set": s, "mode": mode, "kappa": kap[:6], "emit_condition": {kx.split(": ", 1)[1]: list(v) for kx, v in list(norms.items()) + list(sums.items())}}


def main(tier):
    rep = vlib.Report("C03", tier)
    cnt = [0, 0]

    def ob(ok, key, detail):
        cnt[0] += 1
        if ok:
            cnt[1] += 1
        else:
            rep.violation(key, detail)

    sets = ["44", "65"] if tier == "quick" else ["44", "65", "87"]
    samples, res = c06.analyse(rep, ob, sets, prefix="S2:", sides=("sign",), extra_opts=EXTRA, want_results=True)
    samples = samples[:4]
    for s in sets:
        r = res.get(s)
        if r is None:
            continue  # already reported fail-closed by the C06 analysis
        P = aicheck.PARAMS[s]
        for j in r["jobs"]:
            if j.get("error") or j.get("over_budget") or j.get("result") is None:
                continue
            mode = j["id"].split(":")[2]
            samples.append(sign_rules(j, P, s, mode, ob))
            ok_res = isinstance(j["result"], dict) and list(j["result"].get("enum", {}).keys()) == ["v0"]
            ob(ok_res, "S1:always-ok:%s" % mode, {"rule": "with a working generator and ctx <= 255 signing returns Ok for every key, message, rnd", "entry": j["root"], "set": s, "result": j["partitions"]})
    ksamples, kstats = c15.analyse(rep, ob, tier, {"decompose", "make_hint", "center_mod"}, prefix="S8:")
    cov = {
        "obligations": cnt[0], "discharged": cnt[1],
        "checker_cmd": "python3 bin/check C03 (driver ai mode: hash / rng probes, peeled signing loop, path facts at sigEncode; kernel exactness by piecewise-affine analysis)",
        "trusted_base": ["abstract interpreter soundness", "hash model: update() absorbs exactly its argument; XOF reads are sequential", "lib/spec.py transcribes FIPS 204"],
        "samples": samples[:14],
        "kernels": kstats,
        "explanation": "every clause holds for all keys, messages, contexts and generator outputs at once; the polynomial arithmetic between the hashes is not decided",
    }
    return rep.finish("other", cov, ["ring arithmetic (NTT, products) not decided", "hash model"])


if __name__ == "__main__":
    tier = "quick"
    if "--tier" in sys.argv:
        tier = sys.argv[sys.argv.index("--tier") + 1]
    sys.exit(main(tier))
