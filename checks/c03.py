"""C03 - signatures are the FIPS 204 Sign output for the drawn rnd (clauses decided statically).

Decided, for every private key (deserialised or generated), message, ctx <= 255 and RNG output, from
one abstract run per external signing entry point (pure; HashML-DSA x 3 pre-hash functions):
  S1  sources: exactly one generator request, of 32 bytes filling rnd; nothing unmodelled is called
      (no other input to the computation: the signature is a function of sk, M, ctx, mode, rnd).
  S2  M' formatting is FIPS 204 Alg. 2 / 4: rules R1-R3 of C06 (domain byte 0 / 1, exact length byte,
      whole context, whole message or OID(PH) | PH(M) with the FIPS OIDs and digest lengths).
  S3  mu = H(tr | M', 64);  rho'' = H(K | rnd | mu, 64) with K the 32-byte key field that is not rho
      and rnd the generator's buffer.
  S4  ExpandMask: instance r of iteration n absorbs rho'' | IntegerToBytes(n*l + r, 2): constant
      counters in the first three (peeled) iterations, and in every later iteration kappa is
      a multiple of l (congruence carried by the loop invariant) until the 16-bit counter wraps
      (IntegerToBytes(x, 2) = x mod 2^16): kappa advances by exactly l on every path back to the
      loop head.
  S5  c~ = first lambda/4 bytes of H(mu | w1Encode(w1)); SampleInBall absorbs the whole c~.
  S5b SampleInBall skeleton (Alg. 29): tau of Table 1; the 8 sign bytes are squeezed first, index bytes one at a
      time from offset 8; the loop visits exactly positions 256-tau..255 with sign-bit index 0..tau-1; output in {-1,0,1}.
  S6  emit condition: at the call of sigEncode the path condition bounds the four rejection
      quantities exactly as Alg. 7 lines 23 / 28: ||z|| <= gamma1-beta-1, ||r0|| <= gamma2-beta-1,
      ||ct0|| <= gamma2-1, number of hint ones <= omega  (upper bounds equal, not merely below).
  S7  A-hat = ExpandA(rho of the private key) with the FIPS index bytes and order.
  S8  the scalar kernels on the signing path equal their FIPS definitions on their whole domain:
      Decompose / HighBits / LowBits, MakeHint, mod+-, CoeffFromThreeBytes (engine of C15).
  S9  the ring arithmetic of the loop body (Alg. 7 lines 12-26), symbolically: w = NTT^-1(A-hat o
      NTT(y)); c-hat = NTT(c); c*s1, c*s2, c*t0 from the key precomputes (Montgomery factor
      cancels); z = y + c*s1; w1 = HighBits(w); LowBits(w - c*s2); MakeHint(-c*t0, w - c*s2 + c*t0).
      With C18 F (the transforms are the FIPS maps) every step of Sign_internal is accounted for.
  S10 w1Encode is SimpleBitPack with the FIPS bit order (every coefficient bit a boolean symbol, output
      bytes as exact forms); the z packing is BitPack in the FIPS order by C08 R4 + R5.
Not decided: SampleInBall's swap step (c_i <- c_j with j <= i; hash values are opaque), HintBitPack's layout beyond C08 R1, the fill
order of the rejection samplers.  Trusted: hash implementations; NTT diagonalisation (mathematics).
"""
import os
import sys

sys.path.insert(0, os.path.join(os.path.dirname(os.path.abspath(__file__)), "..", "lib"))
sys.path.insert(0, os.path.dirname(os.path.abspath(__file__)))
import absorb
import aicheck
import structure as st
import roots
import vlib
import c06
import c15

EXTRA = {"peel": "ml_dsa::sign_internal:2", "probe": "hashing::expand_mask|encodings::sig_encode|hashing::rej_ntt_poly|hashing::sample_in_ball", "track_ret": "helpers::infinity_norm|Iterator::sum"}


def sign_rules(j, P, s, mode, ob):
    k, l = P["k"], P["l"]
    lam4 = P["lam"] // 4
    ent = "%s" % mode
    # S1
    rc = st.rng_calls(j)
    ok1 = len(rc) == 1 and rc[0]["len"] == "32" and rc[0]["covers_whole_buffer"] == "true"
    ob(ok1, "S1:one-rng-request:%s" % ent, {"rule": "S1 exactly one generator request of 32 bytes that fills rnd", "entry": j["root"], "set": s, "requests": rc})
    rnd_dest = rc[0]["dest"] if rc else None
    # S7
    roles = st.hash_roles(j, "sk.tr")
    rho_src = st.expand_a(j, P, ob, None, "sign:%s" % ent, lambda src: src.startswith("in.self."))
    st.sampler_fill(j, ob, "sign:%s" % ent, {"rej_ntt_poly": k * l})
    # S3 (roles are bound by dataflow: mu = the SHAKE256 instance that absorbs the key's tr first; rho'' = the one
    # that absorbs 32 | 32 | the 64 bytes read from the mu instance)
    mus = roles["mu"]
    okm, rdm = (False, None)
    if len(mus) == 1:
        rdm = absorb.reads(j, mus[0]["id"])
        okm = len(rdm) == 1 and rdm[0]["len"] == "64" and rdm[0]["off"] == "0..0" and rdm[0]["dest_start"] == "0" and len(mus[0]["items"]) >= 4
    ob(okm, "S3:mu:%s" % ent, {"rule": "S3 mu = H(tr | M', 64): one 64-byte read at offset 0", "entry": j["root"], "set": s, "sites": [x["rendered"][:160] for x in mus], "reads": rdm})
    rps = roles["rho2"]
    okr, detail = False, {}
    if len(rps) == 1:
        it = rps[0]["items"]
        rd = absorb.reads(j, rps[0]["id"])
        ok_read = len(rd) == 1 and rd[0]["len"] == "64" and rd[0]["off"] == "0..0" and rd[0]["dest_start"] == "0"
        okr = it[0]["src"].startswith("in.self.") and it[0]["src"] != rho_src and it[1]["taint_all"] & 1 == 1 and ok_read
        detail = {"absorbed": rps[0]["rendered"][:200], "reads": rd, "rho_source": rho_src, "rnd_buffer": rnd_dest}
    ob(okr, "S3:rho-second:%s" % ent, {"rule": "S3 rho'' = H(K | rnd | mu, 64): K is the 32-byte key field other than rho, every byte of rnd comes from the single generator request, mu is the output of the mu instance", "entry": j["root"], "set": s,
                                       "candidates": len(rps), **detail})
    # S4
    ems = roles["expand_mask"]
    c = 1 + st.bitlen(P["gamma1"] - 1)
    bad = None
    for t, x in enumerate(ems):
        it = x["items"]
        rd = absorb.reads(j, x["id"])
        good = len(it) == 2 and it[0]["len"] == [64, 64] and len(rps) == 1 and st.flows_from(it[0], j, rps[0], 64) and it[1]["len"] == [2, 2] and len(rd) >= 1 and all(int(d["len"]) >= 32 * c and d["off"] == "0..0" for d in rd)
        if t < 3 * l:
            good = good and it[1]["consts"] == st.le16(t)
        if not good:
            bad = {"instance": t, "absorbed": x["rendered"][:160], "expected_counter": st.le16(t) if t < 3 * l else "any", "reads": rd[:2]}
            break
    ob(len(ems) >= 3 * l and bad is None, "S4:expand-mask-counters:%s" % ent,
       {"rule": "S4 ExpandMask instance r of iteration n absorbs rho'' | IntegerToBytes(n*l + r, 2) (first three iterations analysed one by one)", "entry": j["root"], "set": s,
        "instances": len(ems), "first_mismatch": bad})
    kap = [p["data"]["args"].split(" ; ")[-1].strip() for p in st.ret_probes(j, "hashing::expand_mask")]
    okk = len(kap) >= 4 and kap[:3] == ["0", str(l), str(2 * l)]

    def hi_of(a):
        if a.isdigit():
            return int(a)
        if a.startswith("[") and "," in a:
            try:
                return int(a[1:a.index("]")].split(",")[1])
            except ValueError:
                return None
        return None

    prev_hi = 2 * l
    for a in kap[3:]:
        multiple = a.endswith("=0(mod %d)" % l) or (a.isdigit() and int(a) % l == 0)
        # the 16-bit counter wraps modulo 2^16 (IntegerToBytes(x, 2)): the congruence modulo l may only be
        # lost in the round in which the abstract value reaches the wrap-around
        wrapped = prev_hi is not None and prev_hi + l > 65535
        if not (multiple or wrapped):
            okk = False
        h = hi_of(a)
        prev_hi = 65535 if wrapped else h
    ob(okk, "S4:kappa-advances-by-l:%s" % ent, {"rule": "S4 kappa is 0, l, 2l in the first three iterations and a multiple of l in every later one until the 16-bit counter wraps: every path back to the loop head adds exactly l",
                                                  "entry": j["root"], "set": s, "l": l, "kappa_per_analysed_iteration": kap[:12]})
    # S5
    w1len = 32 * k * st.bitlen((P["q"] - 1) // (2 * P["gamma2"]) - 1)
    chs = roles["commit"]
    okc = len(chs) >= 1
    seen = []
    for x in chs:
        rd = absorb.reads(j, x["id"])
        ok_read = len(rd) == 1 and rd[0]["len"] == str(lam4) and rd[0]["off"] == "0..0" and rd[0]["dest_start"] == "0"
        seen.append({"absorbed": x["rendered"][:120], "reads": rd[:2]})
        okc = okc and x["items"][1]["len"] == [w1len, w1len] and ok_read
    ob(okc, "S5:commitment-hash:%s" % ent, {"rule": "S5 c~ = first lambda/4 bytes of H(mu | w1Encode(w1))", "entry": j["root"], "set": s, "w1_len": w1len, "lambda_div_4": lam4, "sites": seen[:3]})
    sib = roles["sample_in_ball"]
    oks = len(sib) >= 1 and all(len(x["items"]) == 1 and x["items"][0]["len"] == [lam4, lam4] and any(st.flows_from(x["items"][0], j, c_, lam4) for c_ in chs) for x in sib)
    ob(oks, "S5:challenge-from-whole-ctilde:%s" % ent, {"rule": "S5 SampleInBall absorbs the whole c~ (the lambda/4 bytes read from a commitment hash)", "entry": j["root"], "set": s,
                                                         "sites": [x["rendered"][:120] for x in sib[:3]]})
    # S5b: the part of SampleInBall's shuffle that is visible in the shape of the code
    st.sample_in_ball_shape(j, P, ob, "sign:%s" % ent, sib)
    # S6
    norms, sums = st.emit_condition(j, P, s, ent, ob, "S6")
    return {"set": s, "mode": mode, "kappa": kap[:6], "emit_condition": {kx.split(": ", 1)[1]: list(v) for kx, v in list(norms.items()) + list(sums.items())}}


def parse_forms(p):
    out = []
    for line in p["data"]["forms"].split("\n"):
        if line == "":
            continue
        if line == "-":
            out.append(None)
            continue
        m, d, terms = line.split("|", 2)
        out.append((int(m), int(d), {t.rsplit(":", 1)[0]: int(t.rsplit(":", 1)[1]) for t in terms.split(",") if t}))
    return out


def ring_arithmetic(rep, ob, sets, samples):
    """S9: one symbolic run of the body of the signing loop (first iteration; `loopcut`): matrix entries, mask
    coefficients, the challenge, the private key's precomputes and the outputs of the transforms are named symbols,
    products of two symbols are interned product symbols, everything is followed modulo q."""
    Q = 8380417
    RINV = pow(pow(2, 32, Q), Q - 2, Q)
    jobs = {}
    for s in sets:
        n = roots.names(s)
        jobs[s] = [("%s:ring" % s, n["try_sign_with_rng"], {"sk": "from_bytes", "rng": "ok", "len.ctx": "0..255", "modulus": str(Q), "lin.cap": "600", "atoms.key": "1",
                                                           "atomize": "hashing::rej_ntt_poly|hashing::expand_mask|hashing::sample_in_ball|ntt::ntt|ntt::inv_ntt",
                                                           "dump_args": "ntt::ntt|ntt::inv_ntt|encodings::sig_encode|high_low::make_hint|high_low::low_bits|high_low::high_bits",
                                                           "loopcut": "ml_dsa::sign_internal:1"})]
        P_ = aicheck.PARAMS[s]
        c_ = st.bitlen((Q - 1) // (2 * P_["gamma2"]) - 1)
        jobs[s + ":w1"] = [("%s:w1" % s, "encodings::w1_encode::<%d_usize>" % P_["k"], {"arg0": "%d..%d" % (P_["gamma2"], P_["gamma2"]), "atoms.arg1": "bits%d" % c_, "atoms.big": "1", "lin.cap": "64",
                                                                                       "result_from_arg": "2", "dump_bytes": "1", "len.w1_tilde": "%d..%d" % (32 * P_["k"] * c_, 32 * P_["k"] * c_)})]
    res, errs = aicheck.run_sets(jobs, timeout=6000)
    for s in sets:
        P = aicheck.PARAMS[s]
        k, l = P["k"], P["l"]
        # S10: w1Encode = SimpleBitPack with the FIPS bit order
        rw = res.get(s + ":w1")
        c = st.bitlen((Q - 1) // (2 * P["gamma2"]) - 1)
        bf = rw and rw["jobs"][0].get("bytes_forms")
        ok10, bad10 = False, None
        if bf and len(bf) == 32 * k * c:
            ok10 = True
            for jb, f in enumerate(bf):
                want = {"arg1[%d].%d" % ((8 * jb + t) // c, (8 * jb + t) % c): 1 << t for t in range(8)}
                got = None if f is None else (f[0], f[1], {x: y for x, y in f[2]})
                if got != (0, 0, want):
                    ok10, bad10 = False, {"byte": jb, "code": str(got)[:200]}
                    break
        ob(ok10, "S10:w1encode-layout", {"rule": "S10 w1Encode is SimpleBitPack: bit t of byte j is bit (8j+t) mod c of coefficient (8j+t) div c, c = bitlen((q-1)/(2 gamma2) - 1)", "set": s, "c": c,
                                         "bytes": bf and len(bf), "first_mismatch": bad10})
        r = res.get(s)
        if r is None or r["jobs"][0].get("error"):
            vlib.fail_closed(rep, "driver-ring:%s" % s, (errs.get(s) or str(r and r["jobs"][0].get("error")))[-400:])
            continue
        pr = [p for p in r["jobs"][0]["probes"] if p["what"] == "arg_forms"]
        # ordinal of every transform call = its position among all calls of that function in the job
        nt = [p for p in pr if p["inst"].startswith("ntt::ntt::<")]
        iv = [p for p in pr if p["inst"].startswith("ntt::inv_ntt::<")]
        in_sign = lambda p: "sign_internal" in p["data"].get("path", "")
        nt_s = [(i, p) for i, p in enumerate(nt) if in_sign(p)]
        iv_s = [(i, p) for i, p in enumerate(iv) if in_sign(p)]
        ok = len(nt_s) >= 2 and len(iv_s) >= 4
        detail = {"ntt_calls_in_loop": len(nt_s), "inv_ntt_calls_in_loop": len(iv_s)}
        okw = okc = okcs = okz = okk = False
        if ok:
            (oy, py), (oc, pc) = nt_s[0], nt_s[1]
            fy, fc = parse_forms(py), parse_forms(pc)
            # y-hat = NTT(ExpandMask output), c-hat = NTT(SampleInBall output)
            em = sorted({nm.split("[")[0] for f in fy if f for nm in f[2]})
            okw = len(fy) == 256 * l and len(em) == 1 and em[0].startswith("expand_mask#") and all(f == (0, 0, {"%s[%d]" % (em[0], i): 1}) for i, f in enumerate(fy))
            sb = sorted({nm.split("[")[0] for f in fc if f for nm in f[2]})
            okc = len(fc) == 256 and len(sb) == 1 and sb[0].startswith("sample_in_ball#") and all(f == (0, 0, {"%s[%d]" % (sb[0], i): 1}) for i, f in enumerate(fc))
            (o0, p0), (o1, p1), (o2, p2), (o3, p3) = iv_s[:4]
            f0, f1, f2, f3 = parse_forms(p0), parse_forms(p1), parse_forms(p2), parse_forms(p3)
            okw = okw and len(f0) == 256 * k and all(f == (Q, 0, {"(rej_ntt_poly#%d[%d]*ntt#%d[%d])" % ((i // 256) * l + j, i % 256, oy, j * 256 + i % 256): 1 for j in range(l)}) for i, f in enumerate(f0))
            def prod(forms, field, npoly):
                return len(forms) == 256 * npoly and all(f == (Q, 0, {"(ntt#%d[%d]*sk.%s[%d])" % (oc, i % 256, field, i): RINV}) for i, f in enumerate(forms))
            okcs = prod(f1, "s_1_hat_mont", l) and prod(f2, "s_2_hat_mont", k) and prod(f3, "t_0_hat_mont", k)
            se = [p for p in pr if p["inst"].startswith("encodings::sig_encode") and in_sign(p)]
            if se:
                fz = [f for f in parse_forms(se[0]) if f is None or f[2]][:256 * l]  # the leading scalar arguments (gamma1, omega) are constants
                okz = len(fz) == 256 * l and all(f == (Q, 0, {"%s[%d]" % (em[0], i): 1, "inv_ntt#%d[%d]" % (o1, i): 1}) for i, f in enumerate(fz)) if em else False
            def scal(fn):
                return [parse_forms(p) for p in pr if p["inst"].startswith(fn) and in_sign(p)]
            hb, lb, mh = scal("high_low::high_bits"), scal("high_low::low_bits"), scal("high_low::make_hint")
            g2 = (0, P["gamma2"], {})
            okk = len(hb) >= 8 and len(lb) >= 8 and len(mh) >= 8 \
                and all(f == [g2, (0, 0, {"inv_ntt#%d[%d]" % (o0, i): 1})] for i, f in enumerate(hb)) \
                and all(f == [g2, (Q, 0, {"inv_ntt#%d[%d]" % (o0, i): 1, "inv_ntt#%d[%d]" % (o2, i): Q - 1})] for i, f in enumerate(lb)) \
                and all(f == [g2, (0, Q, {"inv_ntt#%d[%d]" % (o3, i): -1}), (Q, 0, {"inv_ntt#%d[%d]" % (o0, i): 1, "inv_ntt#%d[%d]" % (o2, i): Q - 1, "inv_ntt#%d[%d]" % (o3, i): 1})] for i, f in enumerate(mh))
            detail.update({"w_arg_first": p0["data"]["forms"].split("\n")[0][:200], "cs1_arg_first": p1["data"]["forms"].split("\n")[0][:120],
                           "z_first": se and [x for x in se[0]["data"]["forms"].split("\n") if x.count(":")][:1], "make_hint_first": mh[:1]})
        ob(ok, "S9:loop-body-analysed", {"rule": "fail-closed: the symbolic run reached the transforms of the signing loop", "set": s, **detail})
        ob(okw and okc, "S9:commitment-w", {"rule": "S9 w = NTT^-1( sum_j A-hat[i][j] o NTT(y)[j] ) with y the ExpandMask output; c-hat = NTT(SampleInBall output)", "set": s, **detail})
        ob(okcs, "S9:challenge-products", {"rule": "S9 c*s1, c*s2, c*t0 = NTT^-1(c-hat o key precompute * 2^-32): the Montgomery factor of the stored precomputes cancels", "set": s, **detail})
        ob(okz, "S9:response-z", {"rule": "S9 the z handed to sigEncode is y + c*s1 modulo q (centred)", "set": s, **detail})
        ob(okk, "S9:hint-arguments", {"rule": "S9 w1 = HighBits(w); the r0 test uses LowBits(w - c*s2); MakeHint(-c*t0, w - c*s2 + c*t0) (checked on the first coefficients; the closures are index-uniform)",
                                      "set": s, **detail})
        samples.append({"set": s, "S9": detail})


def main(tier):
    rep = vlib.Report("C03", tier)
    cnt = [0, 0]

    def ob(ok, key, detail):
        cnt[0] += 1
        if ok:
            cnt[1] += 1
        else:
            rep.violation(key, detail)

    sets = ["44", "65"] if tier == "quick" else ["44", "65", "87"]
    samples, res = c06.analyse(rep, ob, sets, prefix="S2:", sides=("sign",), extra_opts=EXTRA, want_results=True)
    samples = samples[:4]
    for s in sets:
        r = res.get(s)
        if r is None:
            continue  # already reported fail-closed by the C06 analysis
        P = aicheck.PARAMS[s]
        for j in r["jobs"]:
            if j.get("error") or j.get("over_budget") or j.get("result") is None:
                continue
            mode = j["id"].split(":")[2]
            samples.append(sign_rules(j, P, s, mode, ob))
            ok_res = isinstance(j["result"], dict) and list(j["result"].get("enum", {}).keys()) == ["v0"]
            ob(ok_res, "S1:always-ok:%s" % mode, {"rule": "with a working generator and ctx <= 255 signing returns Ok for every key, message, rnd", "entry": j["root"], "set": s, "result": j["partitions"]})
    ring_arithmetic(rep, ob, sets, samples)
    ksamples, kstats = c15.analyse(rep, ob, tier, {"decompose", "make_hint", "center_mod", "three_bytes"}, prefix="S8:")
    cov = {
        "obligations": cnt[0], "discharged": cnt[1],
        "checker_cmd": "python3 bin/check C03 (driver ai mode: hash / rng probes, peeled signing loop, path facts at sigEncode; kernel exactness by piecewise-affine analysis)",
        "trusted_base": ["abstract interpreter soundness", "hash model: update() absorbs exactly its argument; XOF reads are sequential", "lib/spec.py transcribes FIPS 204"],
        "samples": samples[:14],
        "kernels": kstats,
        "explanation": "every clause holds for all keys, messages, contexts and generator outputs at once; the polynomial arithmetic between the hashes is not decided",
    }
    return rep.finish("other", cov, ["ring arithmetic (NTT, products) not decided", "hash model"])


if __name__ == "__main__":
    tier = "quick"
    if "--tier" in sys.argv:
        tier = sys.argv[sys.argv.index("--tier") + 1]
    sys.exit(main(tier))
