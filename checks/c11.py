"""C11 - the public key derived from a private key is interchangeable with the generated one
(clauses decided statically).

A public key is the struct (rho, tr, t1-precompute).  For get_public_key on every private key that
deserialisation accepts and on every generated private key, all three parameter sets:
  D1  rho of the derived key is an unmodified copy of the private key's rho (provenance tag).
  D2  tr of the derived key is either an unmodified copy of the private key's tr, or is recomputed
      as H(., 64) over exactly PK_LEN bytes = the key's rho (32) followed by k blocks of 320 bytes
      (one whole pkEncode item, or rho and the k packed polynomials absorbed piecewise) and read
      once at offset 0.  Anything else (zeroed, truncated, hashed over fewer polynomials) is reported.
  D3  the matrix used to recompute t is ExpandA(private key's rho) with the FIPS index bytes / order.
  D4  Power2Round is applied exactly once on the derivation path, to a fully reduced t (and is exact on all of Z_q: C15 engine); CoeffFromThreeBytes equals Alg. 14.
  D5  the derived key is a member of the same abstract class as generated / deserialised keys: its
      t1-precompute range is inside the range proved for them, so every obligation discharged for
      verification with generated keys (C02 R4, C13, C18) also covers derived keys; verify /
      hash_verify / _internal_verify composed with the derived key violate no obligation.
  D6  the verification precompute (NTT(t1 * 2^d) in Montgomery form) is the SAME linear function of t1
      modulo q in key_gen_internal, expand_public (deserialisation) and private_to_public_key
      (derivation): symbolic runs with t1 as named symbols, all 256*256*k coefficients compared.
      Verification uses the precompute only through Montgomery products reduced modulo q, so keys
      with equal (rho, tr, t1) decide every input identically whichever way they were built.
  D7  the ring arithmetic of the derivation, symbolically: t = NTT^-1(A-hat o s1-hat) + NTT^-1(s2-hat)
      with s1-hat, s2-hat the key's stored precomputes divided by the Montgomery factor.  The stored
      precomputes are 2^32 * NTT(s1), 2^32 * NTT(s2) of the sampled / decoded s1, s2 (C04 K9, C09 P5),
      key generation computes t = NTT^-1(A-hat o NTT(s1)) + s2 (C04 K10) and the transforms are the
      FIPS maps (C18 F): the derived t, hence t1, equals the generated one.
Trusted: hash implementations; NTT^-1(NTT(s2)) = s2 is C18 F.
"""
import os
import sys

sys.path.insert(0, os.path.join(os.path.dirname(os.path.abspath(__file__)), "..", "lib"))
sys.path.insert(0, os.path.dirname(os.path.abspath(__file__)))
import absorb
import aicheck
import roots
import structure as st
import vlib
import c04
import c15


def leaf_range(v):
    """hull of the integer leaves below a summary node"""
    lo, hi = None, None

    def walk(x):
        nonlocal lo, hi
        if isinstance(x, dict):
            if "int" in x:
                lo = x["int"][0] if lo is None else min(lo, x["int"][0])
                hi = x["int"][1] if hi is None else max(hi, x["int"][1])
            for k in ("elems", "enum"):
                if k in x:
                    walk(x[k])
            if "enum" not in x and "elems" not in x and "int" not in x:
                for y in x.values():
                    walk(y)
        elif isinstance(x, list):
            for y in x:
                walk(y)

    walk(v)
    return lo, hi


def pk_fields(job):
    """(rho node, tr node, precompute node) of the PublicKey in a job's result, by field type (32 bytes / 64 bytes / rest)"""
    f = st.named_structs(job).get("types::PublicKey")
    if not f:
        return None
    b = st.byte_fields(f)
    rho = [nm for nm, (n, _) in b.items() if n == 32]
    tr = [nm for nm, (n, _) in b.items() if n == 64]
    rest = [nm for nm in f if nm not in b]
    if len(rho) == 1 and len(tr) == 1 and len(rest) == 1:
        return f[rho[0]], f[tr[0]], f[rest[0]]
    return None


def main(tier):
    rep = vlib.Report("C11", tier)
    cnt = [0, 0]

    def ob(ok, key, detail):
        cnt[0] += 1
        if ok:
            cnt[1] += 1
        else:
            rep.violation(key, detail)

    samples = analyse(rep, ob, tier)
    ksamples, kstats = c15.analyse(rep, ob, tier, {"power2round", "three_bytes"}, prefix="D4:")
    cov = {
        "obligations": cnt[0], "discharged": cnt[1],
        "checker_cmd": "python3 bin/check C11 (driver ai mode: exact-copy provenance tags, hash probes, obligations with the derived key)",
        "trusted_base": ["abstract interpreter soundness", "hash model", "rules/assume.json for D5 obligations"],
        "samples": samples, "kernels": kstats,
        "explanation": "rho / tr equality with the private key's fields is decided exactly (copy provenance); t1 equality with the generated key is not decided",
    }
    return rep.finish("other", cov, ["t1 equality (ring arithmetic) not decided"])


def analyse(rep, ob, tier, prefix="", with_use=True):
    """rules D1-D5 on get_public_key for every private-key provenance; `with_use` adds the verify compositions of D5"""
    if prefix:
        ob0 = ob
        ob = lambda ok, key, detail: ob0(ok, prefix + key, detail)
    sets = ["44", "65", "87"]
    jobs = {}
    for s in sets:
        n = roots.names(s)
        J = [("%s:derive/%s" % (s, p), n["get_public_key"], {"sk": p, "probe": "high_low::power2round|hashing::rej_ntt_poly"}) for p in roots.SK_PRODUCERS]
        J += [("%s:ref/keygen" % s, n["keygen_from_seed"], {}), ("%s:ref/from_bytes" % s, n["pk_from_bytes"], {})]
        for root in (("verify", "hash_verify", "internal_verify") if with_use else ()):
            J.append(("%s:use/%s" % (s, root), n[root], {"pk": "derived_from_bytes", "len.ctx": "0..255"}))
        jobs[s] = J
    # D6: the verification precompute as a linear map of t1 (symbolic runs; one driver process each)
    LIN = {"modulus": "8380417", "lin.cap": "600", "dump_lin": "1"}
    for s in sets:
        n = roots.names(s)
        jobs[s + ":pre:keygen"] = [("%s:pre:keygen" % s, n["keygen_from_seed"], dict(LIN, atomize="high_low::power2round"))]
        jobs[s + ":pre:from_bytes"] = [("%s:pre:from_bytes" % s, n["pk_from_bytes"], dict(LIN, atomize="conversion::simple_bit_unpack"))]
        for prod in roots.SK_PRODUCERS:
            jobs[s + ":pre:derived/" + prod] = [("%s:pre:derived/%s" % (s, prod), n["get_public_key"], dict(LIN, atomize="high_low::power2round", sk=prod))]
        jobs[s + ":ring"] = [("%s:ring" % s, n["get_public_key"], {"sk": "from_bytes", "modulus": "8380417", "lin.cap": "600", "atoms.key": "1",
                                                                  "atomize": "hashing::rej_ntt_poly|ntt::inv_ntt", "dump_args": "ntt::inv_ntt|high_low::power2round"})]
    res, errs = aicheck.run_sets(jobs, timeout=6000)
    assume = aicheck.load_assume()
    samples = []
    for s in sets:
        r = res.get(s)
        P = aicheck.PARAMS[s]
        k = P["k"]
        if r is None:
            vlib.fail_closed(rep, "driver:%s" % s, errs.get(s))
            continue
        if r["unmodelled"] or r["unsupported"]:
            vlib.fail_closed(rep, "unmodelled:%s" % s, {"unmodelled": r["unmodelled"], "unsupported": r["unsupported"]})
        J = {j["id"].split(":", 1)[1]: j for j in r["jobs"]}
        bad = [a for a, j in J.items() if j.get("error") or j.get("over_budget") or j.get("result") is None]
        if bad:
            vlib.fail_closed(rep, "job:%s" % s, {a: J[a].get("error") or "over budget" for a in bad})
            continue
        refs = [pk_fields(J["ref/keygen"]), pk_fields(J["ref/from_bytes"])]
        ref_rng = None
        if all(refs):
            a, b = leaf_range(refs[0][2]), leaf_range(refs[1][2])
            ref_rng = (min(a[0], b[0]), max(a[1], b[1]))
        for prod in roots.SK_PRODUCERS:
            j = J["derive/%s" % prod]
            f = pk_fields(j)
            if not f:
                vlib.fail_closed(rep, "shape:%s:%s" % (s, prod), str(j["result"])[:300])
                continue
            rho, tr, t1 = f
            ob(rho.get("arr_len") == 32 and rho.get("tag") == "sk.rho", "D1:rho-copied:%s" % prod,
               {"rule": "D1 the derived key's rho is an unmodified copy of the private key's rho", "entry": j["root"], "set": s, "sk": prod, "rho": rho})
            # D2
            xs = st.dedup(absorb.sites(j, "xof"))
            tag = tr.get("tag")
            how, ok2, seen = None, False, None
            if tr.get("arr_len") == 64 and tag == "sk.tr":
                how, ok2 = "copied", True
            elif tr.get("arr_len") == 64 and tag and tag.startswith("xof") and tag.endswith("@0+64"):
                xid = tag[3:].split("@")[0]
                site = [x for x in xs if x["id"] == xid]
                if len(site) == 1:
                    it = site[0]["items"]
                    rd = absorb.reads(j, xid)
                    seen = {"absorbed": site[0]["rendered"][:300], "reads": rd[:3]}
                    total = sum(i["len"][0] for i in it) if all(i["len"][0] == i["len"][1] for i in it) else None
                    one_item = len(it) == 1 and it[0]["len"] == [P["pk_len"], P["pk_len"]] and any(c.startswith("encodings::pk_encode::<") for c in j["calls"])
                    piecewise = len(it) == 1 + k and it[0]["len"] == [32, 32] and it[0].get("tag") == "sk.rho" and all(i["len"] == [320, 320] for i in it[1:])
                    ok2 = site[0]["kind"] == "Shake256" and total == P["pk_len"] and (one_item or piecewise) and len(rd) == 1
                    how = "recomputed"
            ob(ok2, "D2:tr:%s" % prod, {"rule": "D2 tr of the derived key is the private key's tr, or H(pkEncode(rho, t1), 64) over all PK_LEN bytes", "entry": j["root"], "set": s, "sk": prod,
                                         "tr": tr, "how": how, "hash_instance": seen, "pk_len": P["pk_len"]})
            # D3
            st.expand_a(j, P, ob, "private_to_public_key", "derive:%s" % prod, lambda src: src.startswith("in."))
            st.sampler_fill(j, ob, "derive:%s" % prod, {"rej_ntt_poly": P["k"] * P["l"]})
            ea = [x for x in xs if x["path"].endswith("private_to_public_key>expand_a>rej_ntt_poly>g128_xof")]
            ob(bool(ea) and all(x["items"][0].get("tag") == "sk.rho" for x in ea), "D3:matrix-seed:%s" % prod,
               {"rule": "D3 every ExpandA instance absorbs the private key's rho", "entry": j["root"], "set": s, "tags": sorted({str(x["items"][0].get("tag")) for x in ea})})
            # D4
            p2 = [p for p in st.ret_probes(j, "high_low::power2round") if "private_to_public_key" in p["data"].get("path", "")]
            p2bad = [x for x in r["sites"] if x["inst"].startswith("high_low::power2round") and x["violated"] and "power2round input" in str(x.get("msg"))]
            ob(len(p2) == 1 and not p2bad, "D4:power2round-once-on-reduced-t:%s" % prod,
               {"rule": "D4 Power2Round is applied exactly once on the derivation path and its input-range self-check (all coefficients in [0, q)) is discharged", "entry": j["root"], "set": s,
                "power2round_calls": len(p2), "input_range_obligation_violated": bool(p2bad)})
            # D5
            got = leaf_range(t1)
            ob(ref_rng is not None and got[0] is not None and ref_rng[0] <= got[0] and got[1] <= ref_rng[1], "D5:same-abstract-class:%s" % prod,
               {"rule": "D5 the derived key's precompute lies in the range proved for generated / deserialised keys", "entry": j["root"], "set": s, "derived": got, "reference": ref_rng})
            samples.append({"set": s, "sk": prod, "rho": rho.get("tag"), "tr": tag, "tr_how": how, "t1_precompute_range": got, "reference_range": ref_rng})
        # D6
        def precompute_map(key, npoly):
            rr = res.get(key)
            if rr is None or rr["jobs"][0].get("error") or not rr["jobs"][0].get("lin_dump"):
                vlib.fail_closed(rep, "precompute-run:%s" % key, (errs.get(key) or "no linear forms")[-400:])
                return None
            d = rr["jobs"][0]["lin_dump"][:256 * npoly]
            rows = []
            for leaf in d:
                if leaf is None or leaf[0] != 8380417:
                    rows.append(None)
                    continue
                row = {}
                for nm, c in leaf[2]:
                    # power2round#0[p*256+i]  /  simple_bit_unpack#p[i]  ->  (p, i)
                    base, idx = nm.rsplit("[", 1)
                    idx = int(idx[:-1])
                    ordn = int(base.rsplit("#", 1)[1])
                    pi = (idx // 256, idx % 256) if base.startswith("power2round") else (ordn, idx)
                    row[pi] = c % 8380417
                rows.append((row, leaf[1] % 8380417))
            return rows
        ref = precompute_map(s + ":pre:keygen", k)
        others = {"deserialised": precompute_map(s + ":pre:from_bytes", k)}
        for prod in roots.SK_PRODUCERS:
            others["derived/" + prod] = precompute_map(s + ":pre:derived/" + prod, k)
        for nm, rows in others.items():
            ok6 = ref is not None and rows is not None and len(rows) == len(ref) == 256 * k and all(a is not None and a == b for a, b in zip(ref, rows)) \
                and all(len(a[0]) == 256 and {p for p, _ in a[0]} == {i // 256} for i, a in enumerate(ref))
            first = None
            if not ok6 and ref is not None and rows is not None:
                first = next((i for i, (a, b) in enumerate(zip(ref, rows)) if a != b), None)
            ob(ok6, "D6:same-precompute-map:%s" % nm,
               {"rule": "D6 the verification precompute is the same linear function of t1 modulo q in key generation, deserialisation and derivation (verification depends on it only modulo q)",
                "set": s, "construction": nm, "coefficients_compared": 256 * 256 * k, "first_differing_output": first})
        # D7: the ring arithmetic of the derivation, symbolically
        rr = res.get(s + ":ring")
        if rr is None or rr["jobs"][0].get("error"):
            vlib.fail_closed(rep, "driver-ring:%s" % s, (errs.get(s + ":ring") or str(rr and rr["jobs"][0].get("error")))[-400:])
        else:
            Qm = 8380417
            RINV = pow(pow(2, 32, Qm), Qm - 2, Qm)
            l_ = P["l"]

            def parse(p):
                out = []
                for line in p["data"]["forms"].split("\n"):
                    if line == "":
                        continue
                    if line == "-":
                        out.append(None)
                        continue
                    m_, d_, terms = line.split("|", 2)
                    out.append((int(m_), int(d_), {t.rsplit(":", 1)[0]: int(t.rsplit(":", 1)[1]) for t in terms.split(",") if t}))
                return out
            pr = [p for p in rr["jobs"][0]["probes"] if p["what"] == "arg_forms" and "private_to_public_key" in p["data"].get("path", "")]
            iv = [p for p in pr if p["inst"].startswith("ntt::inv_ntt")]
            p2 = [p for p in pr if p["inst"].startswith("high_low::power2round")]
            ok7 = len(iv) == 2 and len(p2) == 1
            if ok7:
                fs2, fas, ft = parse(iv[0]), parse(iv[1]), parse(p2[0])
                ok7 = len(fs2) == 256 * k and all(f == (Qm, 0, {"sk.s_2_hat_mont[%d]" % i: RINV}) for i, f in enumerate(fs2)) \
                    and len(fas) == 256 * k and all(f == (Qm, 0, {"(rej_ntt_poly#%d[%d]*sk.s_1_hat_mont[%d])" % ((i // 256) * l_ + j, i % 256, j * 256 + i % 256): RINV for j in range(l_)}) for i, f in enumerate(fas)) \
                    and len(ft) == 256 * k and all(f == (Qm, 0, {"inv_ntt#0[%d]" % i: 1, "inv_ntt#1[%d]" % i: 1}) for i, f in enumerate(ft))
            ob(ok7, "D7:derivation-arithmetic", {"rule": "D7 the derivation computes t = NTT^-1(A-hat o s1-hat) + NTT^-1(s2-hat) from the key's precomputes (their Montgomery factor removed: "
                                                          "coefficient 2^-32 modulo q), then Power2Round", "set": s, "inv_ntt_calls": len(iv),
                                                 "first_forms": [p["data"]["forms"].split("\n")[0][:200] for p in iv + p2]})
        vs = [x for x in r["sites"] if x["violated"]]
        viol, assumed, _ = aicheck.classify(vs, assume)
        for x in viol:
            ob(False, "D5:obligation:" + aicheck.stable_key(x), aicheck.site_report(x))
        ob(True, "D5:%s" % s, {})
    return samples


if __name__ == "__main__":
    tier = "quick"
    if "--tier" in sys.argv:
        tier = sys.argv[sys.argv.index("--tier") + 1]
    sys.exit(main(tier))
