"""C10 - malformed private keys are rejected at deserialisation.

Decided by abstract interpretation of `PrivateKey::try_from_bytes(ANY bytes)` per parameter set:
  R1 (soundness of rejection) at the return of skDecode reached from try_from_bytes, the Ok
     payload's s1 and s2 coefficients lie in [-eta, eta] and t0 in [-2^12+1, 2^12]: no byte string
     with an out-of-range field reaches Ok.
  R2 (no over-rejection) every rejecting path of the range validation executed inside BitUnpack
     for (a, b) = (eta, eta) carries an element interval disjoint from [-eta, eta]: an Err is only
     produced by a field that is really out of range.  (Path-partitioned `Iterator::all` model.)
  R3 both outcomes are reachable (not "rejects everything"), and eta seen by the code equals
     FIPS 204 Table 1.
The range self-check of skEncode on accepted keys is an obligation of C13.
"""
import json
import os
import sys

sys.path.insert(0, os.path.join(os.path.dirname(os.path.abspath(__file__)), "..", "lib"))
import aicheck
import roots
import vlib


def elems_range(v):
    """(lo, hi) of a summarised array-of-arrays of ints"""
    while isinstance(v, dict) and "arr_len" in v:
        v = v["elems"]
    if isinstance(v, list) and len(v) == 1:
        return elems_range(v[0])
    if isinstance(v, dict) and "int" in v:
        return tuple(v["int"])
    return None


def main(tier):
    rep = vlib.Report("C10", tier)
    sets = ["44", "65", "87"]  # cheap: always all three
    jobs = {s: [("%s:sk_from_bytes" % s, roots.names(s)["sk_from_bytes"], {"probe": "encodings::sk_decode|conversion::bit_unpack"})] for s in sets}
    res, errs = aicheck.run_sets(jobs)
    obligations = 0
    discharged = 0
    samples = []
    notes = []

    def ob(ok, key, detail):
        nonlocal obligations, discharged
        obligations += 1
        if ok:
            discharged += 1
        else:
            rep.violation(key, detail)

    for s in sets:
        r = res.get(s)
        if r is None:
            vlib.fail_closed(rep, "driver:%s" % s, errs.get(s))
            continue
        P = aicheck.PARAMS[s]
        eta = P["eta"]
        job = r["jobs"][0]
        if job.get("error") or job.get("over_budget"):
            vlib.fail_closed(rep, "job:%s" % s, job)
            continue
        probes = job["probes"]
        dec = [p for p in probes if p["what"] == "ret" and p["inst"].startswith("encodings::sk_decode")]
        if len(dec) != 1:
            vlib.fail_closed(rep, "anchor:sk_decode:%s" % s, "expected exactly one skDecode activation under try_from_bytes, found %d" % len(dec))
            continue
        d = dec[0]["data"]
        args = d["args"].split(" ; ")
        ob(args and args[0] == str(eta), "R3:eta:%s" % s, {"rule": "R3 eta passed to skDecode equals FIPS 204 Table 1", "set": s, "seen": args[:1], "expected": eta})
        ret = json.loads(d["ret"])
        okp = ret.get("enum", {}).get("v0")
        errp = ret.get("enum", {}).get("v1")
        ob(okp is not None and errp is not None, "R3:both-outcomes:%s" % s,
           {"rule": "R3 skDecode can return both Ok and Err on arbitrary bytes", "set": s, "variants": list(ret.get("enum", {}).keys())})
        if okp is None:
            continue
        tup = okp[0]
        rng = {"s1": elems_range(tup[3]), "s2": elems_range(tup[4]), "t0": elems_range(tup[5])}
        for name in ("s1", "s2"):
            lo, hi = rng[name] if rng[name] else (None, None)
            ob(lo is not None and lo >= -eta and hi <= eta, "R1:accept-range:%s" % name,
               {"rule": "R1 every accepted private key has %s coefficients in [-eta, eta]" % name, "set": s, "eta": eta,
                "accepted_interval": [lo, hi], "function": dec[0]["inst"], "call_path": d.get("path"),
                "meaning": "a byte string with a field decoding to a value in the accepted interval but outside [-eta, eta] is deserialised successfully"})
            ob(lo is not None and lo <= -eta and hi >= eta, "R2:accept-range-not-narrower:%s" % name,
               {"rule": "R2 the accepted interval is not narrower than [-eta, eta]", "set": s, "accepted_interval": [lo, hi]})
        lo, hi = rng["t0"] if rng["t0"] else (None, None)
        ob(lo is not None and lo >= -(1 << 12) + 1 and hi <= (1 << 12), "R1:accept-range:t0",
           {"rule": "R1 accepted t0 coefficients in [-2^12+1, 2^12]", "set": s, "accepted_interval": [lo, hi]})
        # R2 reject witnesses of BitUnpack(eta, eta)
        bu = [p for p in probes if p["what"] == "ret" and p["inst"].startswith("conversion::bit_unpack")]
        eta_calls = [p for p in bu if p["data"]["args"].split(" ; ")[1:3] == [str(eta), str(eta)]]
        ob(len(eta_calls) >= 1, "anchor:bit_unpack-eta:%s" % s, {"rule": "fail-closed: BitUnpack(eta, eta) activation found under skDecode", "set": s,
                                                                "bit_unpack_contexts": [p["data"]["args"] for p in bu]})
        for p in eta_calls:
            w = json.loads(p["data"]["reject_witness"])
            if w is None:
                notes.append("set %s: no partitioned rejection witness available for %s (R2 not decided for this activation)" % (s, p["data"]["args"]))
                continue
            wr = elems_range(w) if not (isinstance(w, dict) and "int" in w) else tuple(w["int"])
            ob(wr is not None and (wr[1] < -eta or wr[0] > eta), "R2:over-rejection",
               {"rule": "R2 an element on a rejecting path is outside [-eta, eta]", "set": s, "eta": eta, "rejecting_element_interval": wr,
                "meaning": "some in-range field value can make deserialisation fail"})
            if len(samples) < 6:
                samples.append({"set": s, "bit_unpack_args": p["data"]["args"], "accepted_s1": rng["s1"], "rejecting_element_interval": wr})
    cov = {
        "obligations": obligations, "discharged": discharged,
        "checker_cmd": "python3 bin/check C10 (driver ai mode: try_from_bytes on arbitrary bytes, probes at skDecode / BitUnpack returns)",
        "trusted_base": ["soundness of the interval domain and of the Iterator::all model", "rustc MIR"],
        "samples": samples, "notes": notes,
        "explanation": "accept set of s1/s2/t0 fields read off the Ok payload of skDecode for all 2^(8*SK_LEN) inputs at once; rejecting paths carry a disjoint element interval",
    }
    return rep.finish("proof", cov, ["abstract interpreter soundness", "the NTT-domain struct is a function of the decoded (s1, s2, t0) only"])


if __name__ == "__main__":
    tier = "quick"
    if "--tier" in sys.argv:
        tier = sys.argv[sys.argv.index("--tier") + 1]
    sys.exit(main(tier))
