"""C18 - NTT pipeline: no i32/i64 intermediate overflows for any in-range input (the half of the
property that is a statement about machine arithmetic).

Same abstract-interpretation run as C13 (every public root, every producer/consumer composition,
arbitrary inputs - including the adversarial response vector of verification); the obligations
counted here are those inside ntt / inv_ntt / mat_vec_mul / to_mont / add_vector_ntt, the reductions
they call, and the point-wise Montgomery products in key generation, signing, verification, key
derivation and (de)serialisation closures.  Each is discharged per calling context under the range
the callers establish.

Not decided here: that the transforms are the FIPS 204 linear maps (needs the linear-forms tier,
not built) - see DESIGN.md.
"""
import os
import sys

sys.path.insert(0, os.path.join(os.path.dirname(os.path.abspath(__file__))))
sys.path.insert(0, os.path.join(os.path.dirname(os.path.abspath(__file__)), "..", "lib"))
import c13

PIPE = ("ntt::ntt", "ntt::inv_ntt", "helpers::mat_vec_mul", "helpers::to_mont", "helpers::add_vector_ntt", "helpers::mont_reduce",
        "helpers::partial_reduce64", "helpers::partial_reduce32", "helpers::full_reduce32", "helpers::center_mod", "helpers::infinity_norm")
HOSTS = ("ml_dsa::key_gen_internal", "ml_dsa::sign_internal", "ml_dsa::verify_internal", "ml_dsa::expand_private", "ml_dsa::expand_public",
         "ml_dsa::private_to_public_key", "into_bytes")


def in_pipeline(site):
    inst = site["inst"]
    if inst.startswith(PIPE):
        return True
    if "{closure" in inst and any(h in inst for h in HOSTS) and site["kind"].startswith("assert:Overflow"):
        return True
    return False


def main(tier):
    rep, cov = c13.run("C18", tier, site_filter=in_pipeline,
                       title="overflow / range obligations inside the NTT - pointwise product - inverse NTT pipeline, per calling context")
    if cov["obligations"] < 100:
        import vlib
        vlib.fail_closed(rep, "pipeline-site-floor", "only %d pipeline obligations found (floor 100)" % cov["obligations"])
    cov["checker_cmd"] = cov["checker_cmd"].replace("C13", "C18")
    level = "proof" if cov["not_discharged"] == 0 else "other"
    return rep.finish(level, cov, ["soundness of the interval / congruence / affine domains", "functional correctness of the transforms is not decided here"])


if __name__ == "__main__":
    tier = "quick"
    if "--tier" in sys.argv:
        tier = sys.argv[sys.argv.index("--tier") + 1]
    sys.exit(main(tier))
