"""C18 - NTT pipeline: no i32/i64 intermediate overflows for any in-range input (the half of the
property that is a statement about machine arithmetic).

Same abstract-interpretation run as C13 (every public root, every producer/consumer composition,
arbitrary inputs - including the adversarial response vector of verification); the obligations
counted here are those inside ntt / inv_ntt / mat_vec_mul / to_mont / add_vector_ntt, the reductions
they call, and the point-wise Montgomery products in key generation, signing, verification, key
derivation and (de)serialisation closures.  Each is discharged per calling context under the range
the callers establish.

Functional half, linear part (LIN tier): one symbolic run of every instance of ntt / inv_ntt /
to_mont with all 256*KL input coefficients as named symbols yields, for every output coefficient, a
linear form modulo q over the inputs.  The 256 x 256 matrix of each polynomial is compared entry by
entry with FIPS 204:  NTT(w)[j] = sum_i zeta^((2*brv8(j)+1)*i) * w_i  (Alg. 41, zeta = 1753),
NTT^-1 its inverse incl. the factor 256^-1 and a canonical output range [0, q-1] (Alg. 42),
to_mont(x) = 2^32 * x.  Polynomials do not mix.  Together with the contract of mont_reduce
(a * 2^-32, C15) the point-wise products are the FIPS products; that NTT diagonalises the negacyclic
product is textbook mathematics.

Not decided: the bilinear compositions themselves (A-hat o NTT(s), c-hat o s-hat) as polynomial
identities - see DESIGN.md.
"""
import os
import sys

sys.path.insert(0, os.path.join(os.path.dirname(os.path.abspath(__file__))))
sys.path.insert(0, os.path.join(os.path.dirname(os.path.abspath(__file__)), "..", "lib"))
import c13

PIPE = ("ntt::ntt", "ntt::inv_ntt", "helpers::mat_vec_mul", "helpers::to_mont", "helpers::add_vector_ntt", "helpers::mont_reduce",
        "helpers::partial_reduce64", "helpers::partial_reduce32", "helpers::full_reduce32", "helpers::center_mod", "helpers::infinity_norm")
HOSTS = ("ml_dsa::key_gen_internal", "ml_dsa::sign_internal", "ml_dsa::verify_internal", "ml_dsa::expand_private", "ml_dsa::expand_public",
         "ml_dsa::private_to_public_key", "into_bytes")


def in_pipeline(site):
    inst = site["inst"]
    if inst.startswith(PIPE):
        return True
    if "{closure" in inst and any(h in inst for h in HOSTS) and site["kind"].startswith("assert:Overflow"):
        return True
    return False


Q = 8380417


def brv8(x):
    return int("{:08b}".format(x)[::-1], 2)


def transforms_are_fips(rep, tier):
    import aicheck
    import vlib
    sizes = {"ntt::ntt": [1, 4] if tier == "quick" else [1, 4, 5, 6, 7, 8], "ntt::inv_ntt": [4] if tier == "quick" else [4, 5, 6, 7, 8],
             "helpers::to_mont": [4] if tier == "quick" else [4, 5, 6, 7, 8]}
    rng = {"ntt::ntt": "-524288..524288", "ntt::inv_ntt": "-40000000..40000000", "helpers::to_mont": "-34000000..34000000"}
    jobs = {}
    for fn, ns in sizes.items():
        for n in ns:
            jobs["%s::<%d>" % (fn, n)] = [("m", "%s::<%d_usize>" % (fn, n), {"atoms.arg0": "each", "atoms.big": "1", "elems.arg0": rng[fn], "lin.cap": "600", "modulus": str(Q), "dump_lin": "1"})]
    res, errs = aicheck.run_sets(jobs, timeout=3000)
    roots = [pow(1753, 2 * brv8(j) + 1, Q) for j in range(256)]
    inv256 = pow(256, Q - 2, Q)
    out = {}
    for key in jobs:
        fn, n = key.rsplit("::<", 1)
        n = int(n[:-1])
        r = res.get(key)
        if r is None or r["jobs"][0].get("error") or r["jobs"][0].get("lin_dump") is None or r["unmodelled"] or r["unsupported"]:
            vlib.fail_closed(rep, "transform-run:%s" % key, (errs.get(key) or str(r and r["jobs"][0].get("error")))[-600:])
            continue
        j = r["jobs"][0]
        d = j["lin_dump"]
        bad = None
        checked = 0
        if len(d) != 256 * n:
            bad = {"leaves": len(d), "expected": 256 * n}
        for x in [x for x in r["sites"] if x["violated"]]:
            rep.violation("F:obligation:%s:%s" % (fn, aicheck.stable_key(x)), aicheck.site_report(x))
        for p in range(n if bad is None else 0):
            for o in range(256):
                leaf = d[p * 256 + o]
                if leaf is None or leaf[0] != Q or leaf[1] % Q != 0:
                    bad = bad or {"polynomial": p, "output": o, "form": str(leaf)[:120]}
                    continue
                got = {nm: c % Q for nm, c in leaf[2]}
                if fn == "helpers::to_mont":
                    want = {"arg0[%d]" % (p * 256 + o): pow(2, 32, Q)}
                elif fn == "ntt::ntt":
                    want = {"arg0[%d]" % (p * 256 + i): pow(roots[o], i, Q) for i in range(256)}
                else:
                    want = {"arg0[%d]" % (p * 256 + jj): inv256 * pow(roots[jj], (Q - 1 - o) % (Q - 1), Q) % Q for jj in range(256)}
                if got != want:
                    k0 = next((k for k in want if got.get(k) != want[k]), None) or next(iter(set(got) - set(want)), None)
                    bad = bad or {"polynomial": p, "output": o, "input": k0, "code_coefficient": got.get(k0), "fips_coefficient": want.get(k0)}
                checked += len(want)
                if fn == "ntt::inv_ntt" and not (leaf[3] >= 0 and leaf[4] <= Q - 1):
                    bad = bad or {"polynomial": p, "output": o, "range": leaf[3:5], "expected": [0, Q - 1]}
        if bad is not None:
            rep.violation("F:matrix:%s" % fn, {"rule": "the transform is the FIPS 204 linear map modulo q (every matrix entry compared)", "instance": key, "first_mismatch": bad})
        out[key] = {"matrix_entries_checked": checked, "abstract_steps": j["steps"]}
    return out


def main(tier):
    rep, cov = c13.run("C18", tier, site_filter=in_pipeline,
                       title="overflow / range obligations inside the NTT - pointwise product - inverse NTT pipeline, per calling context")
    if cov["obligations"] < 100:
        import vlib
        vlib.fail_closed(rep, "pipeline-site-floor", "only %d pipeline obligations found (floor 100)" % cov["obligations"])
    cov["checker_cmd"] = cov["checker_cmd"].replace("C13", "C18")
    cov["transforms_vs_fips"] = transforms_are_fips(rep, tier)
    level = "proof" if cov["not_discharged"] == 0 else "other"
    return rep.finish(level, cov, ["soundness of the interval / congruence / affine domains", "the bilinear compositions (products of two transformed vectors) are not decided as polynomial identities"])


if __name__ == "__main__":
    tier = "quick"
    if "--tier" in sys.argv:
        tier = sys.argv[sys.argv.index("--tier") + 1]
    sys.exit(main(tier))
