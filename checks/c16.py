"""C16 - key material is erased on drop.

Static decision procedure over rustc's type/layout/drop-glue facts (driver `facts` mode):
  for every key / polynomial type T (the six key aliases, R, T, the three KG):
   R1  T has drop glue that calls a *local* `<T as Drop>::drop`;
   R2  that body (or the `Zeroize::zeroize` it delegates to) passes `&mut self.f` of EVERY field f
       of the ADT (field list from tcx.adt_def) to a zeroize routine whose type argument is
       exactly the field's type;
   R3  from that routine, the resolved call graph reaches `core::intrinsics::volatile_store`
       for the field's primitive element type, through `<[Z; N] as Zeroize>::zeroize::<E, N>`
       with N*size(E) == size(field) (element count covers the whole field), recursing through
       local ADTs (R, T) by R2;
   R4  layout_of: sum of field sizes == size of T (no padding byte the field-wise wipe would miss);
   R5  nowhere in the crate (every MIR body, generic or not) is `mem::forget`, `ManuallyDrop::new`,
       `Box::leak`, `mem::transmute`, `ptr::read`/`ptr::write` called (zero-count rule; positive control:
       the same rule must match the fixture crate on this run).
"""
import os
import re
import sys

sys.path.insert(0, os.path.join(os.path.dirname(os.path.abspath(__file__)), "..", "lib"))
import vlib

KEY_ALIASES = ["ml_dsa_%s::%s" % (s, k) for s in ("44", "65", "87") for k in ("PrivateKey", "PublicKey", "KG")]
POLY = ["types::R", "types::T"]
EXPECT_FIELDS = {"PrivateKey": 6, "PublicKey": 3, "KG": 0, "R": 1, "T": 1}
FORBIDDEN = [r"core::mem::forget$", r"ManuallyDrop.*::new$", r"Box.*::leak$", r"core::intrinsics::transmute$",
             r"core::mem::transmute", r"core::ptr::read$", r"core::ptr::write$", r"core::mem::swap$", r"core::mem::replace$",
             r"core::mem::take$"]
PRIM_SIZE = {"u8": 1, "i32": 4}


def field_calls(entry):
    """Map field index -> list of callee names receiving `&mut self.field` in one drop/zeroize body."""
    src = {}
    for a in entry.get("assigns", []):
        m = re.match(r"^(_\d+) = &mut \(\(\*_1\)\.(\d+): ", a)
        if m:
            src[m.group(1)] = int(m.group(2))
            continue
        m = re.match(r"^(_\d+) = &mut \(\*(_\d+)\)$", a)
        if m and m.group(2) in src:
            src[m.group(1)] = src[m.group(2)]
            continue
        m = re.match(r"^(_\d+) = (?:move|copy) (_\d+)$", a)
        if m and m.group(2) in src:
            src[m.group(1)] = src[m.group(2)]
    # propagate a second time for reborrow chains listed out of order
    for _ in range(3):
        for a in entry.get("assigns", []):
            m = re.match(r"^(_\d+) = &mut \(\*(_\d+)\)$", a) or re.match(r"^(_\d+) = (?:move|copy) (_\d+)$", a)
            if m and m.group(2) in src:
                src[m.group(1)] = src[m.group(2)]
    out = {}
    whole_self = []
    for c in entry.get("calls", []):
        if "callee" not in c:
            continue
        m = re.match(r"^(?:move|copy) (_\d+)$", c.get("recv", ""))
        if not m:
            continue
        if m.group(1) in src:
            out.setdefault(src[m.group(1)], []).append(c["callee"])
        elif m.group(1) == "_1" or re.match(r"^&'?\S* ?mut ", c.get("recv_ty", "")):
            whole_self.append(c["callee"])
    return out, whole_self


def main(tier):
    rep = vlib.Report("C16", tier)
    obligations = 0
    discharged = 0
    samples = []

    def ob(ok, key, detail):
        nonlocal obligations, discharged
        obligations += 1
        if ok:
            discharged += 1
        else:
            rep.violation(key, detail)
        return ok

    with vlib.Scratch() as sc:
        facts, err, dt = vlib.run_driver(sc, "facts", flags="dbg", tag="c16")
    if facts is None:
        vlib.fail_closed(rep, "driver", err[-2000:])
        return rep.finish("proof", {"obligations": 1, "discharged": 0, "checker_cmd": "bin/check C16", "trusted_base": []}, [])
    types = {t["name"]: t for t in facts["types"]}
    found = [n for n in KEY_ALIASES + POLY if n in types]
    if len(found) != len(KEY_ALIASES) + len(POLY):
        vlib.fail_closed(rep, "anchor-types", "expected %d key/polynomial types, found %s" % (len(KEY_ALIASES) + len(POLY), found))

    for name in found:
        t = types[name]
        short = name.split("::")[-1]
        glue = {g["fn"]: g for g in t.get("drop_glue", [])}
        nf = len(t.get("fields", []))
        ob(nf == EXPECT_FIELDS[short], "fields-count:%s" % name,
           {"rule": "fail-closed: field count of the ADT differs from the count confirmed by hand", "type": name, "found": nf, "expected": EXPECT_FIELDS[short]})
        # R1
        dg = [g for g in t.get("drop_glue", []) if g["fn"].startswith("drop_in_place<")]
        top = dg[0] if dg else None
        drop_callee = None
        if top:
            for c in top.get("calls", []):
                if "callee" in c and "core::ops::Drop>::drop" in c["callee"]:
                    drop_callee = c["callee"]
        ob(bool(t.get("has_dtor")) and bool(t.get("needs_drop")) and drop_callee is not None, "R1:drop-impl:%s" % name,
           {"rule": "R1 type has drop glue calling a local Drop::drop", "type": name, "ty": t.get("ty"), "has_dtor": t.get("has_dtor"), "drop_glue_calls": top.get("calls") if top else None})
        if drop_callee is None or drop_callee not in glue:
            continue
        # R2: field coverage in Drop::drop, following delegation to Zeroize::zeroize(self)
        body = glue[drop_callee]
        fc, whole = field_calls(body)
        hops = [drop_callee]
        while not fc and whole:
            nxt = [w for w in whole if "Zeroize" in w and w in glue and w not in hops]
            if not nxt:
                break
            hops.append(nxt[0])
            fc, whole = field_calls(glue[nxt[0]])
        for i, f in enumerate(t.get("fields", [])):
            callees = fc.get(i, [])
            zc = [c for c in callees if re.search(r"zeroize", c, re.I)]
            if not zc:
                # alternative: the field's own drop glue (which runs after Drop::drop) wipes it
                okself, why = self_wiping(f["ty"], f["size"], glue, types)
                ob(okself, "R2:field-wiped:%s.%s" % (name, f["name"]),
                   {"rule": "R2 Drop::drop passes &mut self.<field> to a zeroize routine, or the field's type wipes itself in its own drop glue",
                    "type": name, "field": f["name"], "field_ty": f["ty"], "drop_body": hops, "calls_on_field": callees, "self_wiping": why})
                if okself and len(samples) < 6:
                    samples.append({"type": name, "field": f["name"], "field_ty": f["ty"], "size": f["size"], "wiped_by": "field drop glue", "volatile_chain": why})
                continue
            ob(True, "R2:field-wiped:%s.%s" % (name, f["name"]), {})
            # R3 reachability to volatile_store with full element coverage
            ok3, why = reaches_volatile(zc[0], f["ty"], f["size"], glue, types)
            ob(ok3, "R3:volatile:%s.%s" % (name, f["name"]),
               {"rule": "R3 zeroize of the field reaches core::intrinsics::volatile_store for every element", "type": name, "field": f["name"], "callee": zc[0], "why": why})
            if len(samples) < 6:
                samples.append({"type": name, "field": f["name"], "field_ty": f["ty"], "size": f["size"], "wiped_by": zc[0], "volatile_chain": why})
        # R4 no padding
        tot = sum(f["size"] for f in t.get("fields", []))
        ob(tot == t.get("size"), "R4:padding:%s" % name,
           {"rule": "R4 sum of field sizes equals the size of the type (no padding)", "type": name, "size": t.get("size"), "sum_fields": tot,
            "fields": [(f["name"], f["offset"], f["size"]) for f in t.get("fields", [])]})

    # R5 zero-count rule + positive control
    def forbidden_sites(fx):
        out = []
        for g in fx["generic_calls"]:
            for pat in FORBIDDEN:
                if re.search(pat, g["callee"]):
                    out.append(g)
        return out

    bad = forbidden_sites(facts)
    ob(len(facts["generic_calls"]) >= 900, "R5:floor", {"rule": "fail-closed: generic call sites scanned below floor 900", "found": len(facts["generic_calls"])})
    for g in bad:
        ob(False, "R5:forbidden:%s:%s" % (g["in"], g["callee"]), {"rule": "R5 no call that can skip or bypass drop / move key bytes untracked", **g})
    if not bad:
        ob(True, "R5", {})
    with vlib.Fixture("forget") as fx:
        ffx, err, dt = vlib.run_driver(fx, "facts", flags="dbg", tag="fx", target="target-fixture")
    ctl = forbidden_sites(ffx) if ffx else []
    ob(ffx is not None and len(ctl) >= 2, "R5:positive-control",
       {"rule": "positive control: the zero-count rule must match mem::forget and ManuallyDrop::new in the fixture", "matched": ctl, "err": None if ffx else err[-1500:]})

    cov = {
        "obligations": obligations,
        "discharged": discharged,
        "checker_cmd": "python3 bin/check C16 (driver facts mode: tcx.adt_def / layout_of / resolve_drop_in_place / resolved call graph)",
        "trusted_base": ["rustc layout and drop elaboration", "zeroize crate: volatile_write + compiler fence prevent elision of the stores",
                         "moved-from stack copies are outside the statement"],
        "types_checked": found,
        "samples": samples,
        "generic_call_sites_scanned": len(facts["generic_calls"]),
        "positive_control_matches": len(ctl),
        "explanation": "every field of every key/polynomial ADT is passed by &mut to a zeroize routine instantiated at the field type, from which the resolved call graph reaches volatile_store per element with N*size(E)==size(field); no padding; no forget/ManuallyDrop/transmute anywhere in the crate",
    }
    return rep.finish("proof", cov, ["zeroize crate semantics trusted below volatile_write", "host layout"])


def self_wiping(fty, fsize, glue, types, depth=0):
    """the type's own drop glue overwrites all of its bytes (local ADTs with a covering Drop, arrays thereof)"""
    if depth > 4:
        return False, "depth"
    m = re.match(r"^\[(.+); (\d+)(?:_usize)?\]$", fty.strip())
    if m:
        ety, n = m.group(1), int(m.group(2))
        if n == 0:
            return True, "empty"
        ok, why = self_wiping(ety, fsize // n, glue, types, depth + 1)
        return ok and (fsize // n) * n == fsize, "[%s; %d]: %s" % (ety, n, why)
    t = types.get(fty)
    if not t or not t.get("has_dtor"):
        return False, "%s has no Drop impl" % fty
    drop = "<%s as core::ops::Drop>::drop" % fty
    if drop not in glue:
        return False, "no body for %s" % drop
    fc, _ = field_calls(glue[drop])
    for i, f in enumerate(t.get("fields", [])):
        zc = [c for c in fc.get(i, []) if "zeroize" in c.lower()]
        if not zc:
            return False, "%s does not wipe %s" % (drop, f["name"])
        ok, why = reaches_volatile(zc[0], f["ty"], f["size"], glue, types, depth + 1)
        if not ok:
            return False, why
    if sum(f["size"] for f in t.get("fields", [])) != t.get("size"):
        return False, "padding in %s" % fty
    return True, "%s::drop wipes all fields" % fty


def norm_ty(s):
    return re.sub(r"_usize", "", s).replace(" ", "")


def reaches_volatile(callee, fty, fsize, glue, types, depth=0):
    """callee: zeroize routine instantiated at fty. Follow the resolved graph to volatile_store."""
    if depth > 6:
        return False, "depth"
    m = re.match(r"^\[(.+); (\d+)(?:_usize)?\]$", fty.strip())
    if m:
        ety, n = m.group(1), int(m.group(2))
        # must go through <[Z; N] as Zeroize>::zeroize::<E, N>
        want = "<[Z; N] as zeroize::Zeroize>::zeroize::<%s, %d_usize>" % (ety, n)
        if not graph_reaches(callee, want, glue):
            return False, "no path %s -> %s" % (callee, want)
        # element zeroize called from the IterMut zeroize
        it = "<core::slice::IterMut<'_, Z> as zeroize::Zeroize>::zeroize::<%s>" % ety
        if not graph_reaches(want, it, glue):
            return False, "no path to %s" % it
        esize = fsize // n if n else 0
        if n * esize != fsize:
            return False, "element count does not tile the field"
        if ety in PRIM_SIZE:
            ez = "<Z as zeroize::Zeroize>::zeroize::<%s>" % ety
            ok, why = reaches_volatile(ez, ety, esize, glue, types, depth + 1)
            if not graph_reaches(it, ez, glue):
                return False, "IterMut zeroize does not call %s" % ez
            return ok, "%s x%d -> %s" % (want, n, why)
        # local ADT element
        ez = "<%s as zeroize::Zeroize>::zeroize" % ety
        if not graph_reaches(it, ez, glue):
            return False, "IterMut zeroize does not call %s" % ez
        ok, why = reaches_volatile(ez, ety, esize, glue, types, depth + 1)
        return ok, "%s x%d -> %s" % (want, n, why)
    if fty in PRIM_SIZE:
        if PRIM_SIZE[fty] != fsize:
            return False, "prim size"
        tgt = "core::intrinsics::volatile_store[Intrinsic]::<%s>" % fty
        if graph_reaches(callee, tgt, glue):
            return True, "%s -> volatile_store::<%s>" % (callee, fty)
        return False, "no path %s -> %s" % (callee, tgt)
    # local ADT: its Zeroize::zeroize must cover all of its fields
    t = types.get(fty)
    if not t or callee not in glue:
        return False, "unknown type %s / body %s" % (fty, callee)
    fc, _ = field_calls(glue[callee])
    parts = []
    for i, f in enumerate(t.get("fields", [])):
        zc = [c for c in fc.get(i, []) if "zeroize" in c.lower()]
        if not zc:
            return False, "%s does not wipe field %s" % (callee, f["name"])
        ok, why = reaches_volatile(zc[0], f["ty"], f["size"], glue, types, depth + 1)
        if not ok:
            return False, why
        parts.append(why)
    if sum(f["size"] for f in t.get("fields", [])) != t.get("size"):
        return False, "padding in %s" % fty
    return True, "%s{%s}" % (fty, "; ".join(parts))


def graph_reaches(src, dst, glue, limit=12):
    seen = set()
    todo = [(src, 0)]
    while todo:
        n, d = todo.pop()
        if n == dst:
            return True
        if n in seen or d > limit or n not in glue:
            continue
        seen.add(n)
        for c in glue[n].get("calls", []):
            if "callee" in c:
                todo.append((c["callee"], d + 1))
    return False


if __name__ == "__main__":
    tier = "quick"
    if "--tier" in sys.argv:
        tier = sys.argv[sys.argv.index("--tier") + 1]
    sys.exit(main(tier))
