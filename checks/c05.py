"""C05 - any single-bit change invalidates a signature (structural clauses decided statically).

That a changed hash input changes the hash output is the SHAKE256 collision argument of the property
statement; what can be decided from the code is that EVERY bit of the signature, of the serialised
public key, of the message and of the context reaches either a rejecting check or a hash input:
  B1  signature: the decoder's byte ranges tile the whole signature (C08 R2); the commitment hash
      c~ is compared in full against the recomputed one and SampleInBall absorbs all of it (C02 R3);
      the hint section has exactly one accepted encoding per hint: every malformation class of
      Alg. 21 - counter above omega, counter below the running index, positions not strictly
      increasing, ANY non-zero unused position byte (first / middle / LAST), at every polynomial -
      is definitely rejected, directly (C08 R1) and through verify / hash_verify / _internal_verify
      embedded in arbitrary signatures (C02 R1); out-of-bound response coefficients are rejected
      (C02 R2).
  B2  public key: deserialisation reads ranges that tile the whole key (C08 R2); rho is the exact
      copy of bytes 0..32 and tr = H(all PK_LEN bytes, 64); verification absorbs all 64 bytes of that
      tr first into mu and expands A from that rho - so every key bit reaches mu or A.
  B3  message / context: the whole message (or its digest under the FIPS OID) and the whole context,
      preceded by its exact length byte and the mode byte, are absorbed into mu (C06 R1-R3, verify
      side), for every context length 0..255.
      Every bit of c-tilde and of every z field matters: sigEncode(sigDecode(s)) reproduces these
      sections bit for bit (C08 R4), so two signatures differing there decode to different (c~, z);
      likewise every bit of the public key changes the decoded (rho, t1).
Not decided: the hash argument itself (a changed hash input changes the output).
"""
import os
import sys

sys.path.insert(0, os.path.join(os.path.dirname(os.path.abspath(__file__)), "..", "lib"))
sys.path.insert(0, os.path.dirname(os.path.abspath(__file__)))
import absorb
import aicheck
import roots
import structure as st
import vlib
import c02
import c06
import c08


def main(tier):
    rep = vlib.Report("C05", tier)
    cnt = [0, 0]

    def ob(ok, key, detail):
        cnt[0] += 1
        if ok:
            cnt[1] += 1
        else:
            rep.violation(key, detail)

    sets = aicheck.sets_for(tier)
    all_sets = ["44", "65", "87"]
    s8, n8 = c08.analyse(rep, ob, all_sets, rules=("R1", "R2", "R4"), prefix="B1:C08:", codecs=("sig", "pk"))
    s2, n2 = c02.analyse(rep, ob, sets, rules=("R1", "R2", "R3"), prefix="B1:C02:")
    s6 = c06.analyse(rep, ob, sets, prefix="B3:", sides=("verify",))
    # B2
    jobs = {}
    for s in all_sets:
        n = roots.names(s)
        jobs[s] = [("%s:pkfb" % s, n["pk_from_bytes"], {}), ("%s:verify" % s, n["verify"], {"pk": "from_bytes", "len.ctx": "0..255"}),
                   ("%s:hash_verify" % s, n["hash_verify"], {"pk": "from_bytes", "len.ctx": "0..255"})]
    res, errs = aicheck.run_sets(jobs)
    samples = []
    for s in all_sets:
        r = res.get(s)
        P = aicheck.PARAMS[s]
        if r is None:
            vlib.fail_closed(rep, "driver:%s" % s, errs.get(s))
            continue
        if r["unmodelled"] or r["unsupported"]:
            vlib.fail_closed(rep, "unmodelled:%s" % s, {"unmodelled": r["unmodelled"], "unsupported": r["unsupported"]})
        J = {j["id"].split(":")[1]: j for j in r["jobs"]}
        bad = [a for a, j in J.items() if j.get("error") or j.get("over_budget") or j.get("result") is None]
        if bad:
            vlib.fail_closed(rep, "job:%s" % s, {a: J[a].get("error") or "over budget" for a in bad})
            continue
        j = J["pkfb"]
        ok_tot = isinstance(j["result"], dict) and list(j["result"].get("enum", {}).keys()) == ["v0"]
        pkb = st.byte_fields(st.named_structs(j).get("types::PublicKey"))
        rho_tag = next((t for n_, t in pkb.values() if n_ == 32), None)
        tr_tag = next((t for n_, t in pkb.values() if n_ == 64), None)
        ob(rho_tag == "in.pk[0..32]", "B2:rho-is-key-prefix", {"rule": "B2 rho of a deserialised key is the exact copy of bytes 0..32 of the encoding", "entry": j["root"], "set": s, "rho_tag": rho_tag})
        xs = st.dedup(absorb.sites(j, "xof"))
        trs = [x for x in xs if tr_tag and x["id"] == tr_tag[3:].split("@")[0]]
        ok_tr = False
        seen = None
        if len(trs) == 1 and tr_tag.endswith("@0+64"):
            it = trs[0]["items"]
            rd = absorb.reads(j, trs[0]["id"])
            seen = {"absorbed": trs[0]["rendered"][:200], "tags": [i.get("tag") for i in it], "reads": [(d["off"], d["len"]) for d in rd]}
            ok_tr = trs[0]["kind"] == "Shake256" and len(it) == 1 and it[0]["len"] == [P["pk_len"], P["pk_len"]] and it[0].get("tag") == "in.pk" and len(rd) == 1
        ob(ok_tr, "B2:tr-hashes-whole-key", {"rule": "B2 tr of a deserialised key is H(all PK_LEN bytes of the encoding, 64)", "entry": j["root"], "set": s, "tr_tag": tr_tag, "hash_instance": seen})
        for ent in ("verify", "hash_verify"):
            jv = J[ent]
            mus = st.hash_roles(jv, "pk.tr")["mu"]
            ok_mu = len(mus) == 1 and len(mus[0]["items"]) >= 4
            ob(ok_mu, "B2:mu-absorbs-whole-tr:%s" % ent, {"rule": "B2 mu absorbs all 64 bytes of the key's tr first", "entry": jv["root"], "set": s,
                                                          "first_items": [(x["items"][0]["len"], x["items"][0].get("tag")) for x in mus]})
            ea = [x for x in st.dedup(absorb.sites(jv, "xof")) if x["path"].endswith("expand_a>rej_ntt_poly>g128_xof")]
            ob(len(ea) == P["k"] * P["l"] and all(x["items"][0].get("tag") == "pk.rho" and x["items"][0]["len"] == [32, 32] for x in ea), "B2:matrix-from-whole-rho:%s" % ent,
               {"rule": "B2 every ExpandA instance of verification absorbs all 32 bytes of the key's rho", "entry": jv["root"], "set": s, "instances": len(ea),
                "tags": sorted({str(x["items"][0].get("tag")) for x in ea})})
        samples.append({"set": s, "rho": rho_tag, "tr": tr_tag, "tr_hash": seen})
    cov = {
        "obligations": cnt[0], "discharged": cnt[1],
        "checker_cmd": "python3 bin/check C05 (driver ai mode: decoder classes, layout tiling, whole-input absorb rules with exact-copy provenance)",
        "trusted_base": ["abstract interpreter soundness", "hash model", "SHAKE256 collision resistance (the property's own premise)", "lib/hintclasses.py verdicts follow Alg. 21"],
        "samples": samples + s8[:3] + s2[:2], "hint_classes": n8, "signature_classes": n2,
        "explanation": "every byte of signature / key / message / context is shown to reach a rejecting check or a hash input; bit-level injectivity of the z fields and the hash argument are not decided",
    }
    return rep.finish("other", cov, ["hash collision resistance"])


if __name__ == "__main__":
    tier = "quick"
    if "--tier" in sys.argv:
        tier = sys.argv[sys.argv.index("--tier") + 1]
    sys.exit(main(tier))
