"""C08 - signature and polynomial encodings are canonical (clauses decided statically).

  R1 (hint decoder, abstract input classes)  HintBitUnpack, per parameter set, is run on a family
      of input classes generated from (k, omega) (lib/hintclasses.py): count above omega, count
      below the running index, non-increasing / repeated positions, non-zero unused bytes -
      each at first / middle / last polynomial or position - must be DEFINITELY rejected for
      every member of the class; canonical classes must be definitely accepted.
  R2 (layout agreement)  for sig / pk / sk the byte ranges written by the encoder and read by the
      decoder (slice-range probes of the abstract run) are identical, pairwise disjoint, tile
      [0, LEN) exactly and equal the FIPS 204 layout computed from the parameters.
  R3 (field accept sets)  BitUnpack on arbitrary bytes, for every (a, b) in use: the accepted
      coefficients are exactly [-a, b] (both directions as in C10), so no out-of-range field is
      read as a coefficient; BitPack of any w in [-a, b] violates no obligation (C13).
  R4 (bit-exact re-encoding)  decode followed by encode, with EVERY INPUT BIT a boolean symbol and
      bit fields followed as exact linear forms over these symbols (low/high split rule for
      masks, shifts, byte extraction): skEncode(skDecode(b)) = b and pkEncode(pkDecode(b)) = b for
      every accepted b, and sigEncode(sigDecode(s)) reproduces c-tilde and all z fields of every
      accepted s.  Hence decoding is injective on accepted strings (no second encoding of the same
      key / response vector); for the hint section the same follows from the classes of R1 only.
  R5 (FIPS bit layout)  with every input bit a boolean symbol, coefficient i of BitUnpack is exactly
      b - sum_t 2^t * bit(i*c + t) and of SimpleBitUnpack sum_t 2^t * bit(i*c + t) (bit j of the string
      = bit j mod 8 of byte j div 8), for every (a, b) in use: the decoders - and by R4 the encoders -
      use the bit order of Alg. 16-19.
Not decided: re-encode identity of the hint section for every accepted string (symbolic indices).
"""
import json
import os
import sys

sys.path.insert(0, os.path.join(os.path.dirname(os.path.abspath(__file__)), "..", "lib"))
import aicheck
import hintclasses
import vlib


def bitlen(x):
    return x.bit_length()


def expected_layouts(P):
    k, l, eta, g1, om = P["k"], P["l"], P["eta"], P["gamma1"], P["omega"]
    lam4 = P["lam"] // 4
    sig = [(0, lam4)]
    step = 32 * (1 + bitlen(g1 - 1))
    for i in range(l):
        sig.append((lam4 + i * step, lam4 + (i + 1) * step))
    sig.append((lam4 + l * step, lam4 + l * step + om + k))
    pk = [(0, 32)] + [(32 + 320 * i, 32 + 320 * (i + 1)) for i in range(k)]
    sk = [(0, 32), (32, 64), (64, 128)]
    st = 32 * bitlen(2 * eta)
    for i in range(l + k):
        sk.append((128 + i * st, 128 + (i + 1) * st))
    base = 128 + (l + k) * st
    for i in range(k):
        sk.append((base + i * 416, base + (i + 1) * 416))
    return {"sig": (sig, P["sig_len"]), "pk": (pk, P["pk_len"]), "sk": (sk, P["sk_len"])}


def leaf_ranges(job, bufname):
    rs = []
    for p in job["probes"]:
        if p["what"] != "range":
            continue
        d = p["data"]
        if not d["base"].endswith(bufname) or d["base_start"] != "0":
            continue
        try:
            rs.append((int(d["lo"]), int(d["hi"])))
        except ValueError:
            rs.append((d["lo"], d["hi"]))
    rs = sorted(set(rs), key=lambda x: (str(type(x[0])), x))
    # drop container ranges (those strictly containing another recorded range)
    leaves = [r for r in rs if not any(o != r and isinstance(o[0], int) and isinstance(r[0], int) and r[0] <= o[0] and o[1] <= r[1] for o in rs)]
    return leaves


def main(tier):
    rep = vlib.Report("C08", tier)
    cnt = [0, 0]

    def ob(ok, key, detail):
        cnt[0] += 1
        if ok:
            cnt[1] += 1
        else:
            rep.violation(key, detail)

    samples, n_classes = analyse(rep, ob, ["44", "65", "87"])  # cheap: always all three
    cov = {
        "obligations": cnt[0], "discharged": cnt[1],
        "checker_cmd": "python3 bin/check C08 (driver ai mode on abstract input classes + slice-range probes)",
        "trusted_base": ["abstract interpreter soundness", "lib/hintclasses.py expected verdicts follow FIPS 204 Alg. 21"],
        "samples": samples, "hint_classes": n_classes,
        "exhaustive": False,
        "explanation": "each class is decided for all its members; the family covers the malformation taxonomy at first/middle/last positions but is not a partition of all byte strings",
    }
    return rep.finish("other", cov, ["class family is a cover of the taxonomy, not of all inputs", "re-encode identity not decided"])


def analyse(rep, ob, sets, rules=("R1", "R2", "R3", "R4", "R5"), prefix="", codecs=("sig", "pk", "sk")):
    if prefix:
        ob0 = ob
        ob = lambda ok, key, detail: ob0(ok, prefix + key, detail)
    samples = []
    n_classes = 0
    jobs = {}
    fams = {}
    for s in sets:
        P = aicheck.PARAMS[s]
        k, l, om, eta, g1 = P["k"], P["l"], P["omega"], P["eta"], P["gamma1"]
        lam4 = P["lam"] // 4
        fam = hintclasses.families(k, om)
        fams[s] = fam
        J = [("%s:hint:%s" % (s, cid), "conversion::hint_bit_unpack::<%d_usize>" % k,
              {"arg0": "%d..%d" % (om, om), "len.y_bytes": "%d..%d" % (om + k, om + k), "bytes.arg1": hintclasses.spec_string(ov)}) for cid, kind, ov in fam]
        g = "%d..%d" % (g1, g1)
        o = "%d..%d" % (om, om)
        e = "%d..%d" % (eta, eta)
        J += [("%s:layout:sig_encode" % s, "encodings::sig_encode::<false, %d_usize, %d_usize, %d_usize, %d_usize>" % (k, l, lam4, P["sig_len"]), {"arg0": g, "arg1": o}),
              ("%s:layout:sig_decode" % s, "encodings::sig_decode::<%d_usize, %d_usize, %d_usize, %d_usize>" % (k, l, lam4, P["sig_len"]), {"arg0": g, "arg1": o}),
              ("%s:layout:pk_encode" % s, "encodings::pk_encode::<%d_usize, %d_usize>" % (k, P["pk_len"]), {}),
              ("%s:layout:pk_decode" % s, "encodings::pk_decode::<%d_usize, %d_usize>" % (k, P["pk_len"]), {}),
              ("%s:layout:sk_encode" % s, "encodings::sk_encode::<%d_usize, %d_usize, %d_usize>" % (k, l, P["sk_len"]), {"arg0": e}),
              ("%s:layout:sk_decode" % s, "encodings::sk_decode::<%d_usize, %d_usize, %d_usize>" % (k, l, P["sk_len"]), {"arg0": e})]
        # R3: accept sets of BitUnpack for every (a, b) in use
        for nm, a, b in (("eta", eta, eta), ("t0", (1 << 12) - 1, 1 << 12), ("z", g1 - 1, g1), ("t1", 0, 1023)):
            c = bitlen(a + b)
            J.append(("%s:unpack:%s" % (s, nm), "conversion::bit_unpack", {"arg1": "%d..%d" % (a, a), "arg2": "%d..%d" % (b, b), "len.v": "%d..%d" % (32 * c, 32 * c), "probe": "conversion::bit_unpack"}))
        if "R5" in rules:
            for nm, a, b in (("eta", eta, eta), ("t0", (1 << 12) - 1, 1 << 12), ("z", g1 - 1, g1)):
                c = bitlen(a + b)
                J.append(("%s:bitlayout:%s" % (s, nm), "conversion::bit_unpack", {"arg1": "%d..%d" % (a, a), "arg2": "%d..%d" % (b, b), "len.v": "%d..%d" % (32 * c, 32 * c),
                                                                            "atoms.arg0": "bits", "lin.cap": "64", "dump_lin": "1"}))
            J.append(("%s:bitlayout:t1" % s, "conversion::simple_bit_unpack", {"arg1": "1023..1023", "len.v": "320..320", "atoms.arg0": "bits", "lin.cap": "64", "dump_lin": "1"}))
        if "R4" in rules:
            bits = {"atoms.big": "1", "lin.cap": "64", "then.spread": "1"}
            if "sig" in codecs:
                J.append(("%s:bits:sig" % s, "encodings::sig_decode::<%d_usize, %d_usize, %d_usize, %d_usize>" % (k, l, lam4, P["sig_len"]),
                          dict(bits, **{"arg0": g, "arg1": o, "atoms.arg2": "bits", "bytes_identity": "arg2", "then.prefix": "%d:i32,%d:i32" % (g1, om),
                                        "then": "encodings::sig_encode::<false, %d_usize, %d_usize, %d_usize, %d_usize>" % (k, l, lam4, P["sig_len"])})))
            if "pk" in codecs:
                J.append(("%s:bits:pk" % s, "encodings::pk_decode::<%d_usize, %d_usize>" % (k, P["pk_len"]),
                          dict(bits, **{"atoms.arg0": "bits", "bytes_identity": "arg0", "then": "encodings::pk_encode::<%d_usize, %d_usize>" % (k, P["pk_len"])})))
            if "sk" in codecs:
                J.append(("%s:bits:sk" % s, "encodings::sk_decode::<%d_usize, %d_usize, %d_usize>" % (k, l, P["sk_len"]),
                          dict(bits, **{"arg0": e, "atoms.arg1": "bits", "bytes_identity": "arg1", "then.prefix": "%d:i32" % eta,
                                        "then": "encodings::sk_encode::<%d_usize, %d_usize, %d_usize>" % (k, l, P["sk_len"])})))
        jobs[s] = J
    res, errs = aicheck.run_sets(jobs)
    for s in sets:
        r = res.get(s)
        P = aicheck.PARAMS[s]
        if r is None:
            vlib.fail_closed(rep, "driver:%s" % s, errs.get(s))
            continue
        if r["unmodelled"] or r["unsupported"]:
            vlib.fail_closed(rep, "unmodelled:%s" % s, {"unmodelled": r["unmodelled"], "unsupported": r["unsupported"]})
        byid = {j["id"]: j for j in r["jobs"]}
        # R1
        for cid, kind, ov in (fams[s] if "R1" in rules else []):
            j = byid["%s:hint:%s" % (s, cid)]
            if j.get("error") or j.get("over_budget") or not isinstance(j.get("result"), dict):
                vlib.fail_closed(rep, "job:%s:%s" % (s, cid), j.get("error") or "no result")
                continue
            n_classes += 1
            got = sorted(j["result"].get("enum", {}).keys())
            want = ["v1"] if kind == "err" else ["v0"]
            ob(got == want, "R1:hint-class:%s" % cid,
               {"rule": "R1 every member of the class is %s by HintBitUnpack" % ("rejected" if kind == "err" else "accepted"), "set": s, "class": cid,
                "pinned_bytes": {str(p): list(v) for p, v in sorted(ov.items())[:12]}, "abstract_result": j["partitions"],
                "meaning": "some byte string of this class is decoded against FIPS 204 Alg. 21"})
            if kind == "ok" and got == ["v0"]:
                # at most omega ones in the decoded hint: ones counted as the upper bounds of the elements
                pass
            if len(samples) < 6 and cid.startswith(("nonzero-padding@%d" % (P["omega"] - 1), "position-order@poly0:a100", "canonical:full")):
                samples.append({"set": s, "class": cid, "expected": kind, "pinned_bytes": {str(p): list(v) for p, v in sorted(ov.items())[:8]}, "abstract_result": j["partitions"]})
        # R2
        exp = expected_layouts(P)
        for what, buf_enc, buf_dec in [x for x in (("sig", ".sigma", "in.sigma"), ("pk", ".pk", "in.pk"), ("sk", ".sk", "in.sk")) if "R2" in rules and x[0] in codecs]:
            je, jd = byid.get("%s:layout:%s_encode" % (s, what)), byid.get("%s:layout:%s_decode" % (s, what))
            if not je or not jd or je.get("error") or jd.get("error"):
                vlib.fail_closed(rep, "job:layout:%s:%s" % (s, what), (je or {}).get("error") or (jd or {}).get("error"))
                continue
            le, ld = leaf_ranges(je, buf_enc), leaf_ranges(jd, buf_dec)
            want, total = exp[what]
            ob(le == ld, "R2:layout-agree:%s" % what, {"rule": "R2 encoder and decoder use the same byte ranges", "set": s, "encoder": le[:20], "decoder": ld[:20]})
            tiles = all(isinstance(a, int) for a, _ in le) and sorted(le) == sorted(want) and want[0][0] == 0 and want[-1][1] == total and all(want[i][1] == want[i + 1][0] for i in range(len(want) - 1))
            ob(tiles, "R2:layout-fips:%s" % what, {"rule": "R2 the ranges tile [0, LEN) and equal the FIPS 204 layout", "set": s, "found": le[:24], "expected": want[:24], "len": total})
            if len(samples) < 9:
                samples.append({"set": s, "codec": what, "ranges": le[:8], "total_len": total})
        # R3
        for nm, a, b in () if "R3" not in rules else (("eta", P["eta"], P["eta"]), ("t0", (1 << 12) - 1, 1 << 12), ("z", P["gamma1"] - 1, P["gamma1"]), ("t1", 0, 1023)):
            j = byid["%s:unpack:%s" % (s, nm)]
            pr = [p for p in j["probes"] if p["what"] == "ret" and p["inst"] == "conversion::bit_unpack"]
            if not pr:
                vlib.fail_closed(rep, "probe:unpack:%s:%s" % (s, nm), "no return probe")
                continue
            ret = json.loads(pr[-1]["data"]["ret"])
            okp = ret.get("enum", {}).get("v0")
            rng = None
            if okp:
                v = okp[0]
                while isinstance(v, (list, dict)) and not (isinstance(v, dict) and "int" in v):
                    v = v[0] if isinstance(v, list) else v.get("elems")
                rng = v.get("int") if isinstance(v, dict) else None
            ob(rng == [-a, b], "R3:accept-set:%s" % nm, {"rule": "R3 BitUnpack(a=%d, b=%d) accepts exactly the coefficients [-a, b]" % (a, b), "set": s, "accepted_interval": rng})
            w = json.loads(pr[-1]["data"]["reject_witness"])
            if a + b + 1 == 1 << bitlen(a + b):
                # full bit range: nothing may be rejected
                ob(list(ret.get("enum", {}).keys()) == ["v0"], "R3:total:%s" % nm, {"rule": "R3 when a+b+1 is a power of two every byte string decodes", "set": s, "variants": list(ret.get("enum", {}).keys())})
            elif w is not None:
                wr = w.get("int") if isinstance(w, dict) else None
                ob(wr is not None and (wr[1] < -a or wr[0] > b), "R3:reject-witness:%s" % nm, {"rule": "R3 rejected elements lie outside [-a, b]", "set": s, "rejecting_interval": wr})
        # R5: the bit layout of the field decoders is FIPS 204's (BytesToBits little-endian, BitsToInteger little-endian)
        if "R5" in rules:
            for nm, a, b in (("eta", P["eta"], P["eta"]), ("t0", (1 << 12) - 1, 1 << 12), ("z", P["gamma1"] - 1, P["gamma1"]), ("t1", 0, 1023)):
                j = byid.get("%s:bitlayout:%s" % (s, nm))
                d = (j or {}).get("lin_dump")
                if not j or j.get("error") or not d:
                    vlib.fail_closed(rep, "job:bitlayout:%s:%s" % (s, nm), (j or {}).get("error") or "no forms")
                    continue
                c = bitlen(a + b)
                bad = None
                for i, leaf in enumerate(d):
                    want = {"arg0[%d].%d" % ((i * c + t) // 8, (i * c + t) % 8): ((1 << t) if a == 0 else -(1 << t)) for t in range(c)}
                    got = None if leaf is None else (leaf[0], leaf[1], {x: y for x, y in leaf[2]})
                    if got != (0, (0 if a == 0 else b), want):
                        bad = {"coefficient": i, "code": str(got)[:200], "expected_bits": "%d..%d of the bit string" % (i * c, i * c + c - 1)}
                        break
                ob(len(d) == 256 and bad is None, "R5:bit-layout:%s" % nm,
                   {"rule": "R5 coefficient i of %s is %s the integer formed by bits i*c .. i*c+c-1 of the byte string (little-endian bits and bytes), as Alg. 18 / 19 prescribe" %
                    ("SimpleBitUnpack" if a == 0 else "BitUnpack(a=%d, b=%d)" % (a, b), "" if a == 0 else "b minus"), "set": s, "c": c, "first_mismatch": bad})
        # R4: decode then encode reproduces the input bit for bit (every input bit is a boolean symbol)
        if "R4" in rules:
            hint_off = P["sig_len"] - P["omega"] - P["k"]
            for what, total, need in (("sig", P["sig_len"], hint_off), ("pk", P["pk_len"], P["pk_len"]), ("sk", P["sk_len"], P["sk_len"])):
                if what not in codecs:
                    continue
                j = byid.get("%s:bits:%s" % (s, what))
                bi = (j or {}).get("bytes_identity")
                if not j or j.get("error") or not bi:
                    vlib.fail_closed(rep, "job:bits:%s:%s" % (s, what), (j or {}).get("error") or "no byte-identity result")
                    continue
                fd = [x[0] for x in bi.get("first_different", [])]
                okb = bi["bytes"] == total and bi["identical"] >= need and all(i >= need for i in fd)
                ob(okb, "R4:reencode-identity:%s" % what,
                   {"rule": "R4 encode(decode(b)) = b bit for bit for every accepted b" + (" (c-tilde and all z fields; the hint section is decided by the classes of R1)" if what == "sig" else ""),
                    "set": s, "bytes": total, "required_identical_prefix": need, "identical": bi["identical"], "first_different": bi.get("first_different")})
                if len(samples) < 12:
                    samples.append({"set": s, "codec": what, "bytes_reencoded_identically": bi["identical"], "of": total})
        bad = [] if "R1" not in rules else [x for x in r["sites"] if x["violated"] and x["inst"].startswith("conversion::hint_bit_unpack") and "too many 1's" not in x.get("msg", "")]
        for x in bad:
            ob(False, "R1:obligation:" + aicheck.stable_key(x), aicheck.site_report(x))
    return samples, n_classes


if __name__ == "__main__":
    tier = "quick"
    if "--tier" in sys.argv:
        tier = sys.argv[sys.argv.index("--tier") + 1]
    sys.exit(main(tier))
