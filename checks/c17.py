"""C17 - every feature combination builds warning-free (no_std) and each enabled parameter set has
MIR identical to the default configuration.

Static decision procedure:
  (a) per configuration, `cargo check --lib` with the default toolchain under the crate's own
      #![deny(warnings, dead_code, ...)] : rustc's type checker and lints are the analysis;
  (b) per configuration, the driver lists every monomorphic instance reachable from the public API
      with a span-free fingerprint of its MIR; every instance reachable from a non-dudect root must
      exist in the default configuration with the same fingerprint, and vice versa for every
      enabled parameter set;
  (c) no instance with CTEST=true is reachable from a non-dudect root;
  (d) the crate graph contains no `std`, the feature table only toggles cfgs and rand_core/getrandom.
"""
import itertools
import os
import re
import subprocess
import sys
import time
import tomllib
from concurrent.futures import ThreadPoolExecutor

sys.path.insert(0, os.path.join(os.path.dirname(os.path.abspath(__file__)), "..", "lib"))
import vlib

SETS = ["ml-dsa-44", "ml-dsa-65", "ml-dsa-87"]


def all_configs():
    cfgs = []
    for r in range(1, 4):
        for sub in itertools.combinations(SETS, r):
            for rng in (True, False):
                for dud in (False, True):
                    cfgs.append((sub, rng, dud))
    return cfgs


def cfg_name(c):
    sub, rng, dud = c
    return "+".join(s[-2:] for s in sub) + ("/rng" if rng else "/norng") + ("/dudect" if dud else "")


def cfg_features(c):
    sub, rng, dud = c
    f = list(sub)
    if rng:
        f.append("default-rng")
    if dud:
        f.append("dudect")
    return f


def stable_check(scratch, c):
    env = dict(os.environ, CARGO_NET_OFFLINE="true", CARGO_INCREMENTAL="0",
               CARGO_TARGET_DIR=os.path.join(vlib.CACHE, "target-c17-stable"))
    env.pop("RUSTFLAGS", None)
    env.pop("RUSTC_WORKSPACE_WRAPPER", None)
    nonce = "verif_nonce_%d_%d" % (os.getpid(), int(time.time() * 1e6))
    cmd = ["cargo", "rustc", "--offline", "--lib", "--profile", "check", "--no-default-features", "--features", ",".join(cfg_features(c)),
           "--message-format", "short", "--", "--cfg", nonce]
    r = subprocess.run(cmd, cwd=scratch.dir, env=env, capture_output=True, text=True)
    diags = [l for l in r.stderr.splitlines() if re.search(r"\b(warning|error)\b", l) and "generated" not in l]
    return r.returncode, diags, r.stderr[-3000:]


def reach(facts, roots):
    by = {i["name"]: i for i in facts["instances"]}
    seen = set()
    todo = list(roots)
    while todo:
        n = todo.pop()
        if n in seen or n not in by:
            continue
        seen.add(n)
        for c in by[n]["calls"]:
            if c.get("resolved") and c.get("resolved_local"):
                todo.append(c["resolved"])
    return seen, by


KL = {"44": "<4_usize, 4_usize>", "65": "<6_usize, 5_usize>", "87": "<8_usize, 7_usize>"}


def root_in_set(r, pset):
    return ("ml_dsa_%s" % pset[-2:]) in r or KL[pset[-2:]] in r


def api_roots(facts, pset=None, dudect=None):
    out = []
    for r in facts["roots"]:
        isd = "dudect" in r
        if dudect is not None and isd != dudect:
            continue
        if pset is not None and not root_in_set(r, pset):
            continue
        out.append(r)
    return out


def main(tier):
    rep = vlib.Report("C17", tier)
    cfgs = all_configs()
    if False and tier == "quick":
        # 7 subsets with default-rng, plus the no-rng and dudect variants of the full set and of each single set
        pick = [c for c in cfgs if c[1] and not c[2]]
        pick += [c for c in cfgs if (len(c[0]) in (1, 3)) and not (c[1] and not c[2]) and c not in pick]
        cfgs_run = pick
    else:
        cfgs_run = cfgs
    default_cfg = (tuple(SETS), True, False)
    evals = 0
    samples = []
    with vlib.Scratch() as sc:
        # (d) feature table
        with open(os.path.join(sc.dir, "Cargo.toml"), "rb") as fh:
            cargo = tomllib.load(fh)
        feats = cargo.get("features", {})
        expected_keys = {"default", "default-rng", "ml-dsa-44", "ml-dsa-65", "ml-dsa-87", "dudect"}
        if set(feats) != expected_keys:
            rep.violation("feature-table:keys", {"rule": "feature table lists exactly the documented features",
                                                  "found": sorted(feats), "expected": sorted(expected_keys)})
        for k, v in feats.items():
            allowed = {"default": {"default-rng", "ml-dsa-44", "ml-dsa-65", "ml-dsa-87"}, "default-rng": {"rand_core/getrandom"}}.get(k, set())
            if not set(v) <= allowed:
                rep.violation("feature-table:%s" % k, {"rule": "a feature only toggles cfgs (or rand_core/getrandom for default-rng)",
                                                       "feature": k, "enables": v, "file": "Cargo.toml"})
        for dep, spec in cargo.get("dependencies", {}).items():
            if isinstance(spec, dict) and spec.get("default-features", True):
                rep.violation("deps:default-features:%s" % dep, {"rule": "dependencies are built without default (std) features", "dep": dep})
        # default-configuration facts
        base, err, dt = vlib.run_driver(sc, "facts", flags="dbg", features=cfg_features(default_cfg), no_default=True, tag="default")
        if base is None:
            vlib.fail_closed(rep, "driver-default-config", err[-2000:])
            return rep.finish("exploration", {"evaluations": 1, "distinct_nontrivial": 0, "rule": "driver failed", "samples": ["driver failed"]}, [])
        if "std" in base["extern_crates"]:
            rep.violation("crate-graph:std", {"rule": "crate graph contains no std", "extern_crates": base["extern_crates"]})
        base_by = {i["name"]: i for i in base["instances"]}
        if len(base_by) < 150:
            vlib.fail_closed(rep, "instance-floor", "only %d instances in the default configuration (floor 150)" % len(base_by))

        def one(c):
            t0 = time.time()
            name = cfg_name(c)
            res = {"config": name, "features": cfg_features(c)}
            rc, diags, tail = stable_check(sc, c)
            res["check_rc"] = rc
            res["diagnostics"] = diags[:10]
            if rc != 0 or diags:
                res["tail"] = tail
            facts, err, dt = vlib.run_driver(sc, "facts", flags="dbg", features=cfg_features(c), no_default=True, tag=name.replace("/", "_").replace("+", "_"))
            res["facts"] = facts
            res["err"] = None if facts is not None else err[-2000:]
            res["wall"] = round(time.time() - t0, 1)
            return c, res

        # warm the dependency caches once (two rng variants) to avoid lock convoy, then fan out
        results = []
        warm = [c for c in cfgs_run if c == default_cfg] + [c for c in cfgs_run if not c[1]][:1]
        for c in warm:
            results.append(one(c))
        rest = [c for c in cfgs_run if c not in warm]
        with ThreadPoolExecutor(max_workers=6) as ex:
            results += list(ex.map(one, rest))

        distinct = set()
        for c, res in results:
            evals += 1
            name = res["config"]
            if res["check_rc"] != 0 or res["diagnostics"]:
                rep.violation("build:%s" % name, {"rule": "cargo check --lib succeeds with zero diagnostics under the crate's deny set",
                                                  "config": name, "features": res["features"], "diagnostics": res["diagnostics"], "tail": res.get("tail", "")})
            facts = res["facts"]
            if facts is None:
                vlib.fail_closed(rep, "driver:%s" % name, res["err"])
                continue
            if "std" in facts["extern_crates"]:
                rep.violation("crate-graph:std:%s" % name, {"rule": "crate graph contains no std", "config": name})
            sub, rng, dud = c
            nd_roots = api_roots(facts, dudect=False)
            seen, by = reach(facts, nd_roots)
            n_cmp = 0
            for n in sorted(seen):
                if re.search(r"::<true\b", n):
                    rep.violation("ctest-leak:%s" % re.sub(r"ml_dsa_\d\d", "ml_dsa_XX", n), {
                        "rule": "CTEST=true instances are reachable only from dudect_keygen_sign_with_rng",
                        "config": name, "instance": n, "site": by[n]["site"]})
                b = base_by.get(n)
                if b is None:
                    rep.violation("instance-only-in:%s:%s" % (name, n), {
                        "rule": "every instance reachable from the API in a configuration exists in the default configuration",
                        "config": name, "instance": n, "site": by[n]["site"]})
                    continue
                n_cmp += 1
                if b["fingerprint"] != by[n]["fingerprint"]:
                    rep.violation("mir-differs:%s" % n, {
                        "rule": "MIR of an instance is identical to the default configuration",
                        "config": name, "instance": n, "site": by[n]["site"]})
            # converse: everything the default config reaches from the enabled sets' non-OS-rng API exists here
            for s in sub:
                want_roots = api_roots(base, pset=s, dudect=False)
                if not rng:
                    # OS-RNG wrappers are cfg'd out without default-rng (documented)
                    want_roots = [r for r in want_roots if not re.search(r"::try_(keygen|sign|hash_sign)(::<[^<>]*(<[^<>]*>)?[^<>]*>)?$", r)]
                bseen, _ = reach(base, want_roots)
                missing = [r for r in want_roots if r not in facts["roots"]]
                for m in missing:
                    rep.violation("api-missing:%s:%s" % (name, m), {"rule": "enabled parameter set exposes the same API as in the default configuration", "config": name, "root": m})
                have, _ = reach(facts, [r for r in want_roots if r in facts["roots"]])
                for n in sorted(bseen - have):
                    rep.violation("instance-missing:%s:%s" % (name, n), {"rule": "instances reachable in default are reachable in this configuration", "config": name, "instance": n})
            if dud:
                droots = api_roots(facts, dudect=True)
                if len(droots) != len(sub):
                    rep.violation("dudect-roots:%s" % name, {"rule": "dudect feature exposes exactly one entry point per enabled set", "found": droots})
            distinct.add((tuple(sorted(seen)), tuple(res["features"])))
            if len(samples) < 4:
                samples.append({"config": name, "features": res["features"], "cargo_check_rc": res["check_rc"],
                                "instances_reachable_from_api": len(seen), "fingerprints_compared_equal": n_cmp, "wall_s": res["wall"]})
    cov = {
        "evaluations": evals,
        "distinct_nontrivial": len(distinct),
        "rule": "one evaluation = one feature configuration: cargo check under the crate's deny set + driver fingerprint comparison of every instance reachable from the API against the default configuration; distinct = distinct (feature set, reachable instance set)",
        "samples": samples,
        "exhaustive": tier == "thorough",
        "configurations_total": 28,
        "configurations_run": evals,
        "default_instances": len(base_by),
    }
    return rep.finish("exploration", cov, [
        "identical span-free MIR per instance implies identical behaviour (compiler determinism trusted)",
        "host target only; other targets / endianness not analysed",
        "toolchains: default stable for the warning-free build, nightly for MIR extraction"])


if __name__ == "__main__":
    tier = "quick"
    if "--tier" in sys.argv:
        tier = sys.argv[sys.argv.index("--tier") + 1]
    sys.exit(main(tier))
