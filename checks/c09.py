"""C09 - key serialisation round-trips exactly (byte identity decided statically for all keys).

Keys are stored as NTT / Montgomery precomputes; into_bytes inverts them.  For EVERY public-key byte
string and EVERY private-key byte string that deserialisation accepts:
  P1  totality: PublicKey::try_from_bytes returns Ok for every byte string; along
      try_from_bytes -> into_bytes (both key kinds) NO panic / overflow / self-check obligation is
      violated - not even the ones C13 assumes for skEncode (they are discharged here by P3).
  P2  byte fields: after deserialisation rho (and K, tr for private keys) are exact copies of their
      byte ranges of the input; into_bytes copies them unmodified into the same ranges of its output.
  P3  coefficient vectors (the ring arithmetic): one abstract run of try_from_bytes followed by
      into_bytes in which every decoded coefficient is a named symbol; linear forms modulo q
      are carried through NTT, the Montgomery conversions, the 2^d scaling, the inverse NTT, the
      centring branch and the final shift; at the call of pkEncode / skEncode every one of the
      256*k (resp. 256*(l+2k)) coefficients must be EXACTLY its own symbol, in order.  Hence
      t1' = t1 for all t1 in [0,1023]^(256k) (incl. all-0, all-1023) and (s1,s2,t0)' = (s1,s2,t0)
      for all accepted values (incl. every coefficient at -eta, +eta, t0 at both range ends).
  P4  the byte codecs: encoder and decoder use identical byte ranges that tile the encoding and equal
      the FIPS layout; each field decoder accepts exactly the coefficient range the encoder may emit;
      and pkEncode(pkDecode(b)) = b, skEncode(skDecode(b)) = b BIT FOR BIT for every accepted b
      (every input bit a boolean symbol, bit fields followed as exact forms) - C08 R2, R3, R4.
P3 and P4 together give into_bytes(try_from_bytes(b)) = b for every accepted b: try_from_bytes is
the precompute of decode(b), into_bytes encodes the inverse precompute, P3 says the two precomputes
cancel on every decoded coefficient vector, P4 says encode undoes decode.
  P5  the converse direction: the private key's precomputes are the SAME linear functions of
      (s1, s2, t0) modulo q in key generation and in deserialisation (symbolic runs, every
      coefficient compared); with C04 K9 (into_bytes of a generated key encodes exactly the sampled
      s1, s2 / Power2Round's t0, t1), P2 (byte fields) and C11 D6 (public precompute) a generated key
      and its re-deserialised copy hold the same rho, K, tr and precomputes that agree modulo q; signing
      and verification use the precomputes only through Montgomery products reduced modulo q, and
      all range obligations are discharged for both provenances (C13), so they behave identically.
Not decided: representative-level (bit-identical struct) equality, which the property does not need.
"""
import os
import sys

sys.path.insert(0, os.path.join(os.path.dirname(os.path.abspath(__file__)), "..", "lib"))
sys.path.insert(0, os.path.dirname(os.path.abspath(__file__)))
import aicheck
import roots
import structure as st
import vlib
import c08

LIN = {"modulus": "8380417", "lin.cap": "600"}


def identity_probe(j, fn):
    return [p["data"] for p in j["probes"] if p["what"] == "identity" and p["inst"].startswith(fn) and p["data"].get("path", "").endswith("into_bytes")]


def expected_runs(base, npoly):
    return " ".join("%s#%d[0..256]" % (base, i) for i in range(npoly))


def main(tier):
    rep = vlib.Report("C09", tier)
    cnt = [0, 0]

    def ob(ok, key, detail):
        cnt[0] += 1
        if ok:
            cnt[1] += 1
        else:
            rep.violation(key, detail)

    sets = ["44", "65", "87"]  # the symbolic runs are cheap enough for all three sets on every change
    jobs = {}
    for s in sets:
        n = roots.names(s)
        # two driver processes per set (the two symbolic runs dominate the cost)
        jobs[s + ":a"] = [
            ("%s:pk:roundtrip" % s, n["pk_from_bytes"], dict(LIN, atomize="conversion::simple_bit_unpack", identity="encodings::pk_encode", then=n["pk_into_bytes"])),
            ("%s:pk:from" % s, n["pk_from_bytes"], {}), ("%s:sk:from" % s, n["sk_from_bytes"], {}),
            ("%s:pk:into" % s, n["pk_into_bytes"], {"pk": "from_bytes"}), ("%s:sk:into" % s, n["sk_into_bytes"], {"sk": "from_bytes"}),
        ]
        jobs[s + ":b"] = [
            ("%s:sk:roundtrip" % s, n["sk_from_bytes"], dict(LIN, atomize="conversion::bit_unpack", identity="encodings::sk_encode", then=n["sk_into_bytes"])),
        ]
        # P5: the private key's precomputes as linear maps of (s1, s2, t0), in key generation and in deserialisation
        jobs[s + ":c"] = [("%s:pre:keygen" % s, n["keygen_from_seed"], dict(LIN, atomize="hashing::rej_bounded_poly|high_low::power2round", dump_lin="1"))]
        jobs[s + ":d"] = [("%s:pre:from_bytes" % s, n["sk_from_bytes"], dict(LIN, atomize="conversion::bit_unpack", dump_lin="1"))]
    res2, errs2 = aicheck.run_sets(jobs, timeout=6000)
    res, errs = {}, {}
    for s in sets:
        a, b = res2.get(s + ":a"), res2.get(s + ":b")
        if a is None or b is None:
            res[s] = None
            errs[s] = (errs2.get(s + ":a") or "") + (errs2.get(s + ":b") or "")
            continue
        res[s] = {"jobs": a["jobs"] + b["jobs"], "sites": a["sites"] + b["sites"], "unmodelled": dict(a["unmodelled"], **b["unmodelled"]), "unsupported": dict(a["unsupported"], **b["unsupported"])}
    samples = []
    for s in sets:
        r = res.get(s)
        P = aicheck.PARAMS[s]
        k, l = P["k"], P["l"]
        if r is None:
            vlib.fail_closed(rep, "driver:%s" % s, errs.get(s))
            continue
        if r["unmodelled"] or r["unsupported"]:
            vlib.fail_closed(rep, "unmodelled:%s" % s, {"unmodelled": r["unmodelled"], "unsupported": r["unsupported"]})
        J = {j["id"].split(":", 1)[1]: j for j in r["jobs"]}
        bad = [a for a, j in J.items() if j.get("error") or j.get("over_budget") or j.get("result") is None]
        if bad:
            vlib.fail_closed(rep, "job:%s" % s, {a: J[a].get("error") or "over budget" for a in bad})
            continue
        # P1
        pf = J["pk:from"]["result"]
        ob(isinstance(pf, dict) and list(pf.get("enum", {}).keys()) == ["v0"], "P1:pk-deserialisation-total",
           {"rule": "P1 every byte string of public-key length deserialises successfully", "entry": J["pk:from"]["root"], "set": s, "result": J["pk:from"]["partitions"]})
        rt_ids = {"%s:pk:roundtrip" % s, "%s:sk:roundtrip" % s}
        for x in r["sites"]:
            if x["violated"] and rt_ids & set(x.get("roots") or []):
                ob(False, "P1:obligation:" + aicheck.stable_key(x), dict(aicheck.site_report(x), rule="P1 no panic / overflow / self-check can fail along try_from_bytes -> into_bytes for any input"))
        ob(True, "P1:roundtrip-obligations", {})
        # P2 (by field name: the field read from a byte range is the field written back to it)
        pkb = st.byte_fields(st.named_structs(J["pk:from"]).get("types::PublicKey"))
        skb = st.byte_fields(st.named_structs(J["sk:from"]).get("types::PrivateKey"))
        seg_pk = J["pk:into"]["result"].get("segs") if isinstance(J["pk:into"]["result"], dict) else None
        seg_sk = J["sk:into"]["result"].get("segs") if isinstance(J["sk:into"]["result"], dict) else None

        def consistent(segs, fields, prefix, inp, want_ranges):
            if not segs or [x[:2] for x in segs] != want_ranges:
                return False
            for lo, hi, tag in segs:
                if not tag.startswith(prefix + "."):
                    return False
                f = fields.get(tag[len(prefix) + 1:])
                if f is None or f != (hi - lo, "in.%s[%d..%d]" % (inp, lo, hi)):
                    return False
            return len({x[2] for x in segs}) == len(segs)

        ok_pk = consistent(seg_pk, pkb, "pk", "pk", [[0, 32]]) and J["pk:into"]["result"].get("arr_len") == P["pk_len"]
        ob(ok_pk, "P2:pk-byte-fields", {"rule": "P2 the 32-byte field deserialised from bytes 0..32 is written back unmodified to bytes 0..32 of a PK_LEN-byte array", "set": s,
                                         "after_deserialisation": pkb, "segments_written": seg_pk})
        ok_sk = consistent(seg_sk, skb, "sk", "sk", [[0, 32], [32, 64], [64, 128]]) and J["sk:into"]["result"].get("arr_len") == P["sk_len"]
        ob(ok_sk, "P2:sk-byte-fields", {"rule": "P2 the three byte fields deserialised from bytes 0..32, 32..64, 64..128 are written back unmodified to the same ranges of an SK_LEN-byte array", "set": s,
                                         "after_deserialisation": skb, "segments_written": seg_sk})
        # P3
        for kind, fn, base, npoly in (("pk", "encodings::pk_encode", "simple_bit_unpack", k), ("sk", "encodings::sk_encode", "bit_unpack", l + 2 * k)):
            j = J["%s:roundtrip" % kind]
            ip = identity_probe(j, fn)
            ok3 = len(ip) == 1 and ip[0]["leaves"] == str(256 * npoly) and ip[0]["exact"] == ip[0]["leaves"] and ip[0]["runs"] == expected_runs(base, npoly)
            ob(ok3, "P3:coefficients-roundtrip:%s" % kind,
               {"rule": "P3 every coefficient handed to %s by into_bytes is exactly the coefficient the decoder produced (linear forms modulo q through NTT / Montgomery / inverse NTT)" % fn.split("::")[-1],
                "set": s, "expected_coefficients": 256 * npoly, "probe": [{kk: vv[:300] for kk, vv in d.items()} for d in ip][:2]})
            ok_len = isinstance(j["result"], dict) and j["result"].get("arr_len") == P["%s_len" % kind]
            ob(ok_len, "P3:roundtrip-total:%s" % kind, {"rule": "P3 the round trip returns an encoding for every accepted input", "set": s, "result": j["partitions"]})
            samples.append({"set": s, "key": kind, "coefficients": 256 * npoly, "exactly_recovered": ip[0]["exact"] if ip else None, "symbols": ip[0]["runs"][:160] if ip else None,
                            "abstract_steps": j["steps"]})
    # P5
    for s in sets:
        P = aicheck.PARAMS[s]
        k, l = P["k"], P["l"]
        a, b = res2.get(s + ":c"), res2.get(s + ":d")
        da = a and a["jobs"][0].get("lin_dump")
        db = b and b["jobs"][0].get("lin_dump")
        if not da or not db:
            vlib.fail_closed(rep, "precompute-run:%s" % s, ((errs2.get(s + ":c") or "") + (errs2.get(s + ":d") or "") or "no linear forms")[-400:])
            continue

        def norm(nm):
            base, idx = nm.rsplit("[", 1)
            idx = int(idx[:-1])
            fn, ordn = base.rsplit("#", 1)
            ordn = int(ordn)
            if fn.endswith("power2round"):
                # tuple (t1, t0): leaves 0..256k are t1, then t0
                return ("t1", idx // 256, idx % 256) if idx < 256 * k else ("t0", (idx - 256 * k) // 256, idx % 256)
            if ordn < l:
                return ("s1", ordn, idx)
            if ordn < l + k:
                return ("s2", ordn - l, idx)
            return ("t0", ordn - l - k, idx)

        def rows(d, lo, n_):
            out = []
            for leaf in d[lo:lo + n_]:
                out.append(None if leaf is None or leaf[0] != 8380417 else ({norm(nm): c % 8380417 for nm, c in leaf[2]}, leaf[1] % 8380417))
            return out
        nsk = 256 * (l + 2 * k)
        ra, rb = rows(da, 256 * k, nsk), rows(db, 0, nsk)
        ok5 = len(ra) == len(rb) == nsk and all(x is not None and x == y for x, y in zip(ra, rb))
        if ok5:
            # each precompute polynomial depends on exactly its own source polynomial
            want = [("s1", p) for p in range(l)] + [("s2", p) for p in range(k)] + [("t0", p) for p in range(k)]
            ok5 = all(len(ra[i][0]) == 256 and {(v, p) for v, p, _ in ra[i][0]} == {want[i // 256]} for i in range(nsk))
        first = next((i for i, (x, y) in enumerate(zip(ra, rb)) if x != y), None) if not ok5 else None
        ob(ok5, "P5:same-precompute-maps:sk", {"rule": "P5 the private key's NTT / Montgomery precomputes are the same linear functions of (s1, s2, t0) modulo q in key generation and in deserialisation "
                                                        "(signing uses them only through Montgomery products reduced modulo q)", "set": s, "coefficients_compared": 256 * nsk, "first_differing_output": first})
    s8, n8 = c08.analyse(rep, ob, ["44", "65", "87"], rules=("R2", "R3", "R4"), prefix="P4:", codecs=("pk", "sk"))
    cov = {
        "obligations": cnt[0], "discharged": cnt[1],
        "checker_cmd": "python3 bin/check C09 (driver ai mode, LIN tier: named coefficient symbols, linear forms modulo q through the transforms; exact-copy provenance of byte fields)",
        "trusted_base": ["abstract interpreter soundness (linear congruence domain, exactification by range, bit-field split rule)"],
        "samples": samples,
        "explanation": "P3 is a proof for all keys at once: the decoded coefficients are symbols, not samples; extremal patterns are members of the symbol ranges",
    }
    return rep.finish("other", cov, ["abstract interpreter soundness", "the byte round trip is proved; behavioural equality of a re-deserialised generated key is shown only through P2-P4 and C11 D6 (equal precompute maps modulo q)"])


if __name__ == "__main__":
    tier = "quick"
    if "--tier" in sys.argv:
        tier = sys.argv[sys.argv.index("--tier") + 1]
    sys.exit(main(tier))
