#!/usr/bin/env python3
"""Brute-force the breakpoint sets of the FIPS 204 scalar definitions (lib/spec.py) over r in [0, q) and
store them in rules/spec_breakpoints.json (oracle data derived from the standard only; re-derived and
compared by `bin/check C15 --tier thorough`)."""
import json, os, sys, time
sys.path.insert(0, os.path.join(os.path.dirname(os.path.abspath(__file__)), "lib"))
import spec
Q = spec.Q
G2 = {"88": (Q - 1) // 88, "32": (Q - 1) // 32}

def components():
    comps = {"power2round.r1": (lambda r: spec.power2round(r)[0], 0), "power2round.r0": (lambda r: spec.power2round(r)[1], 1)}
    for name, g2 in G2.items():
        comps["decompose%s.r1" % name] = (lambda r, g2=g2: spec.decompose(r, g2)[0], 0)
        comps["decompose%s.r0" % name] = (lambda r, g2=g2: spec.decompose(r, g2)[1], 1)
        comps["use_hint%s.h1" % name] = (lambda r, g2=g2: spec.use_hint(1, r, g2), 0)
        comps["use_hint%s.h0" % name] = (lambda r, g2=g2: spec.use_hint(0, r, g2), 0)
    return comps

def main():
    out = {}
    for k, (f, slope) in components().items():
        t0 = time.time()
        out[k] = {"slope": slope, "domain": [0, Q - 1], "breakpoints": spec.breakpoints(f, slope, 0, Q - 1)}
        print(k, len(out[k]["breakpoints"]), round(time.time() - t0, 1), "s")
    json.dump(out, open(os.path.join(os.path.dirname(os.path.abspath(__file__)), "rules", "spec_breakpoints.json"), "w"))

if __name__ == "__main__":
    main()
