#!/usr/bin/env python3
"""Regenerates MANIFEST.json from the table below (single source of truth for claimed checks)."""
import json, os
HERE = os.path.dirname(os.path.abspath(__file__))
props = [json.loads(l) for l in open(os.path.join(HERE, "properties.jsonl"))]
ids = [p["id"] for p in props]

CLAIMED = {
 "C17": dict(
    category="exploration",
    text="All 28 feature configurations are checked exhaustively: each builds warning-free under the crate's own deny set (rustc's lints decide), the crate graph has no std, and every monomorphic instance reachable from the public API has span-free MIR identical to the default configuration (driver fingerprints), so each enabled parameter set runs the same code. CTEST=true instances are reachable only from the dudect entry point.",
    design_ref="DESIGN.md §4 C17",
    note="Trusted: rustc determinism (same MIR => same behaviour), host target only. Deciding step is static: no library code is executed.",
    technique="configuration matrix under rustc deny-lints + MIR fingerprint equality of reachable instances (rustc_private driver)",
    engine="cfg-matrix"),
}
NA_REASON = "check not built yet in this round (static-analysis engine under construction); see DESIGN.md §8 build order"

checks = []
for i in ids:
    if i in CLAIMED:
        c = CLAIMED[i]
        checks.append({
            "property_id": i,
            "quick_cmd": "python3 bin/check %s --tier quick" % i,
            "thorough_cmd": "python3 bin/check %s --tier thorough" % i,
            "evidence_file": "evidence/%s.json" % i,
            "engine": c["engine"],
            "level_claimed": {"category": c["category"], "text": c["text"], "design_ref": c["design_ref"]},
            "level_note": c["note"],
            "technique": c["technique"],
        })
man = {
 "version": 1,
 "setup_cmd": "sh bin/setup",
 "hooks": {
    "guard": "fips204_verif",
    "enable": "none needed: the rustc_private driver reads crate-private items directly; no hook commits exist",
    "baseline_off_cmd": "cd /repo && cargo test --workspace --no-fail-fast --offline",
    "source_commits": [],
    "add_only": True,
 },
 "engines": [
   {"name": "cfg-matrix", "path": "checks/c17.py", "serves_properties": ["C17"], "kind_free_text": "feature-configuration matrix: rustc lints + MIR fingerprints"},
   {"name": "driver", "path": "driver/", "serves_properties": sorted(CLAIMED), "kind_free_text": "rustc_private driver over type-checked monomorphic MIR (facts, call graph, abstract interpretation)"},
 ],
 "checks": checks,
 "not_applicable": [{"property_id": i, "reason": NA_REASON} for i in ids if i not in CLAIMED],
 "notes": "Technique family: static analysis only. See DESIGN.md.",
}
json.dump(man, open(os.path.join(HERE, "MANIFEST.json"), "w"), indent=1)
print("claimed:", sorted(CLAIMED), "n/a:", len(man["not_applicable"]))
