#!/usr/bin/env python3
"""Regenerates MANIFEST.json from the table below (single source of truth for claimed checks)."""
import json, os
HERE = os.path.dirname(os.path.abspath(__file__))
props = [json.loads(l) for l in open(os.path.join(HERE, "properties.jsonl"))]
ids = [p["id"] for p in props]

CLAIMED = {
 "C17": dict(
    category="exploration",
    text="All 28 feature configurations are checked exhaustively: each builds warning-free under the crate's own deny set (rustc's lints decide), the crate graph has no std, and every monomorphic instance reachable from the public API has span-free MIR identical to the default configuration (driver fingerprints), so each enabled parameter set runs the same code. CTEST=true instances are reachable only from the dudect entry point.",
    design_ref="DESIGN.md §4 C17",
    note="Trusted: rustc determinism (same MIR => same behaviour), host target only. Deciding step is static: no library code is executed.",
    technique="configuration matrix under rustc deny-lints + MIR fingerprint equality of reachable instances (rustc_private driver)",
    engine="cfg-matrix"),
 "C16": dict(
    category="proof",
    text="For every key / polynomial type (6 key aliases, R, T, 3 KG) the drop glue calls a local Drop::drop whose body passes &mut of EVERY field of the ADT to a zeroize routine instantiated at the field type, from which the resolved call graph reaches core::intrinsics::volatile_store for each element (N*size(E) == size(field)); layout_of shows no padding; no mem::forget / ManuallyDrop / transmute call exists in any MIR body of the crate (zero-count rule with a positive-control fixture).",
    design_ref="DESIGN.md §4 C16",
    note="Trusted: zeroize's volatile_write/fence are not elided; moved-from stack copies are outside the statement; rustc layout/drop elaboration.",
    technique="type/layout/drop-glue facts from rustc (adt_def, layout_of, resolve_drop_in_place) + resolved call-graph reachability",
    engine="driver-facts"),
 "C10": dict(
    category="proof",
    text="Abstract interpretation of PrivateKey::try_from_bytes on ALL byte strings at once, per parameter set: the Ok payload of skDecode has s1/s2 in [-eta, eta] and t0 in range (no out-of-range field is accepted), every rejecting path of the validation carries an element interval disjoint from [-eta, eta] (no in-range field is rejected), both outcomes are reachable, and eta equals FIPS 204 Table 1.",
    design_ref="DESIGN.md §4 C10",
    note="Trusted: soundness of the interval domain / Iterator::all model in /verif/driver. The re-serialisation self-check half is an obligation of C13 (assumed there, with the lemma).",
    technique="abstract interpretation over monomorphic MIR (intervals + path-partitioned validation), probes at skDecode/BitUnpack returns",
    engine="driver-ai"),
 "C13": dict(
    category="other",
    text="Abstract interpretation of all 30 public entry points per parameter set on arbitrary inputs (each key consumer composed with every key producer: deserialised arbitrary bytes, generated, derived). Every Assert terminator, panicking call and modelled std precondition reachable is an obligation; all are discharged except the 11 individually named obligations of rules/assume.json (counting / quantified-array / inverse-transform facts outside the domains, each with its lemma). In addition try_from_bytes -> into_bytes (both key kinds) is analysed as ONE composition with symbolic coefficients (linear forms modulo q through the transforms): there the skEncode / BitPack range self-checks are decided rather than assumed, so an accepted key that panics on re-serialisation is reported. Not a full proof because of the remaining assumptions; sound for everything else.",
    design_ref="DESIGN.md §4 C13, §5, A.6",
    note="Assumed: rules/assume.json (11 obligations, listed in evidence). Trusted: abstract domains and std models; dependencies do not panic. Quick = ML-DSA-44, thorough = all three sets.",
    technique="abstract interpretation over monomorphic MIR: intervals, linear congruences, affine quotient forms, sign partitioning; obligations = MIR Assert/panic sites",
    engine="driver-ai"),
 "C18": dict(
    category="proof",
    text="Every i32/i64 overflow and range obligation inside ntt / inv_ntt / mat_vec_mul / to_mont / add_vector_ntt, the reductions they call and the point-wise Montgomery products is discharged in every calling context reachable from the public API under the ranges the callers establish, including the adversarial response vector of verification (z ranges over the whole decoded interval). Functional half, linear part: one symbolic run of every instance of ntt / inv_ntt / to_mont with all 256*KL input coefficients as named symbols yields each output coefficient as a linear form modulo q; every entry of every 256x256 matrix is compared with FIPS 204 (NTT(w)[j] = sum_i 1753^((2 brv8(j)+1) i) w_i; its inverse with 256^-1 and canonical output range; to_mont = 2^32 x), polynomials do not mix. With mont_reduce's contract (C15) the point-wise products are the FIPS products. The bilinear compositions as polynomial identities are not decided.",
    design_ref="DESIGN.md §4 C18",
    note="Trusted: abstract domains (incl. linear forms modulo q); that the NTT diagonalises the negacyclic product is textbook mathematics. Quick: instances of ML-DSA-44 (ntt<1>, ntt<4>, inv_ntt<4>, to_mont<4>), thorough: all instances.",
    technique="abstract interpretation over monomorphic MIR (per-call-site interval/congruence/affine ranges through the unrolled transforms) + symbolic linear forms modulo q compared with the FIPS matrices",
    engine="driver-ai"),
 "C07": dict(
    category="proof",
    text="Abstract interpretation of the six entry points that take a context on three length classes that partition usize ([0,255], {256}, [257,max]; message/keys arbitrary): over-long contexts are DEFINITELY rejected (Err / false) without entering sign_internal / verify_internal, every length 0..255 passes the guard, and at the mu absorb site the one-byte length item is the exact linear form 1*len(ctx)+0 in [0,255] (never a truncation, hence no aliasing).",
    design_ref="DESIGN.md §4 C07",
    note="Trusted: abstract interpreter soundness; SHAKE256 absorbs exactly what update() is given. Quick = ML-DSA-44, thorough = all sets.",
    technique="abstract interpretation over monomorphic MIR with definite-result classes and exact linear forms of absorbed bytes",
    engine="driver-ai"),
 "C12": dict(
    category="proof",
    text="R1 who-may-call over every MIR body: only RngCore::try_fill_bytes is ever called on the generator (zero sites of fill_bytes/next_u32/next_u64; positive control fixture). R2 fault enumeration by request index under abstract interpretation: if request #i fails (buffer possibly partially written) the entry point returns definitely Err, does no key/signature work and hits no panic obligation; with a working generator it returns Ok. R3 exactly one 32-byte request covering the whole buffer, and all 32 RNG-tainted bytes are absorbed (first item of H(xi||k||l); middle item of H(K||rnd||mu)). R4 the OS-RNG wrappers only forward &mut of a zero-sized per-call OsRng.",
    design_ref="DESIGN.md §4 C12",
    note="Trusted: SHAKE256 depends on every absorbed byte; OsRng stateless; abstract interpreter soundness. Fault indices 0 and 1 are enumerated (no entry point issues more than two requests).",
    technique="call-graph who-may-call rule + abstract interpretation with generator fault injection and byte-level taint of absorbed items",
    engine="driver-ai"),
 "C15": dict(
    category="proof",
    text="(i) mont_reduce, partial_reduce32, full_reduce32, center_mod analysed once over their whole documented input ranges: no overflow, all self-checks discharged, result in the documented range and carrying the linear congruence (a*2^-32, a, a, m) modulo q; partial_reduce64 on x*2^32 for all |x| below its bound by bisection into proved cells. (ii) Power2Round, Decompose/HighBits/LowBits (both gamma2), UseHint (h=0,1), mod+-, CoeffFromThreeBytes, CoeffFromHalfByte: the input is a symbol, the domain is bisected inside the driver until each cell's abstract result is an exact affine function c*x+d; every cell is then compared with the FIPS definition (lib/spec.py): no definition breakpoint inside, equal at both ends => equal on the cell; the cells tile the whole domain (all of Z_q, the i32 precondition range, all 2^24 byte triples, all 16 half bytes). MakeHint: HighBits exact + structural two-HighBits rule + evaluated points.",
    design_ref="DESIGN.md §4 C15",
    note="Trusted: abstract interpreter soundness; lib/spec.py transcription of Alg. 14, 15, 35-40; spec breakpoint tables (re-derived by brute force in the thorough tier). MakeHint's two-dimensional domain is covered structurally, not cell by cell.",
    technique="abstract interpretation with exact affine forms + piecewise-affine domain partitioning against the FIPS definitions",
    engine="driver-ai"),
 "C14": dict(
    category="proof",
    text="Taint x value abstract interpretation at MIR level. R1: dudect_keygen_sign_with_rng (CTEST=true, --features dudect, debug assertions and overflow checks off as in the timing harness) with every RNG byte tainted: no SwitchInt/Assert successor, array index, Div/Rem operand or short-circuiting iterator depends on a tainted value that is not provably constant, except the one allow-listed compare-select (Iterator::max in infinity_norm); since control is followed concretely when discriminants are singletons, one abstract path covers every RNG output. R2: the same rule for 21 secret-handling kernels run alone with tainted data over their caller ranges (incl. those dead in test mode). R3: positive control - the normal signing entry point must show its rejection branches.",
    design_ref="DESIGN.md §4 C14",
    note="Proof under the stated MIR-level leakage model only: code generation (selects turned into branches), caches and hardware timing are not analysed. Hash permutations trusted data-independent. Allow-list: rules/ct_allow.json (1 entry).",
    technique="taint + value abstract interpretation over monomorphic MIR with an explicit leakage model",
    engine="driver-ai"),
 "C06": dict(
    category="proof",
    text="Proof of the injectivity skeleton of the formatted message: at the mu site of every external entry point (pure sign/verify; hash sign/verify x SHA-256, SHA-512, SHAKE128; context of ANY length, so that 'L = len(ctx) in [0,255]' also establishes that no longer context reaches the hash; message arbitrary) the absorb list is tr | D | L | ctx | tail with D the constant 00 (pure) / 01 (pre-hash), L the exact linear form len(ctx) placed before the whole context, pure tail = whole message, hash tail = FIPS OID (11 constant bytes, pairwise distinct) followed by a digest of the table length produced by exactly one hasher of the right kind over the whole message; sign and verify build identical lists. Prefix-free header + length-delimited context + fixed-length OID => distinct (mode, ctx, M/(PH,digest)) give distinct M'.",
    design_ref="DESIGN.md §4 C06",
    note="Trusted: collision resistance of SHAKE256 / SHA-2 / SHAKE128 (a different M' gives a different mu), hash model (update absorbs exactly its argument), abstract interpreter soundness. That verification then fails is the hash argument, not analysed.",
    technique="abstract interpretation with symbolic hash absorb lists (value numbering of absorbed items) compared against the FIPS 204 layout",
    engine="driver-ai"),
 "C03": dict(
    category="other",
    text="Clauses of 'the signature is the FIPS 204 Sign output for the drawn rnd', each decided for every key, message, context <= 255 and generator output from one abstract run per signing entry point (pure + 3 pre-hash functions): S1 exactly one 32-byte generator request fills rnd and nothing unmodelled is called (no other input); S2 M' is formatted as Alg. 2/4 (C06 rules R1-R3 on the sign side: domain byte, exact length byte, whole ctx, FIPS OIDs, digest lengths); S3 mu = H(tr|M',64), rho'' = H(K|rnd|mu,64) with K the key field other than rho and rnd the generator bytes; S4 the signing loop is peeled three times: ExpandMask instance r of iteration n absorbs rho''|IntegerToBytes(n*l+r,2), and the loop invariant carries kappa = 0 (mod l): every path back to the loop head adds exactly l; S5 c~ = first lambda/4 bytes of H(mu|w1Encode(w1)), SampleInBall absorbs all of c~; S5b SampleInBall skeleton: tau of Table 1, 8 sign bytes squeezed first then single index bytes from offset 8, positions 256-tau..255 visited with sign-bit index 0..tau-1, output in {-1,0,1}; S6 the path condition at the sigEncode call bounds ||z||, ||r0||, ||ct0|| and the hint weight by exactly the Alg. 7 thresholds; S7 A-hat = ExpandA(sk.rho) with FIPS index bytes and order; S8 Decompose/HighBits/LowBits, MakeHint, mod+- and CoeffFromThreeBytes (ExpandA's kernel) equal their FIPS definitions on the whole domain (C15 engine), and RejNTTPoly leaves its loop only with 256 accepted coefficients in every call; S9 the ring arithmetic of the loop body, symbolically (product symbols modulo q): w = NTT^-1(A-hat o NTT(y)), c-hat = NTT(c), c*s1 / c*s2 / c*t0 from the key precomputes with the Montgomery factor cancelling, z = y + c*s1, w1 = HighBits(w), LowBits(w - c*s2), MakeHint(-c*t0, w - c*s2 + c*t0). With C18 F the arithmetic steps of Sign_internal are accounted for. Still not decided (hence level 'other'): SampleInBall's shuffle as an algorithm (only its absorb list and output weight), the fill order inside the rejection samplers, HintBitPack's layout (S10 shows w1Encode is SimpleBitPack in the FIPS bit order; z packing is C08 R4+R5); trusted: hash implementations, NTT diagonalisation (mathematics).",
    design_ref="DESIGN.md §4 C03",
    note="Level 'other': necessary structural clauses, not the byte-for-byte equality. Quick = ML-DSA-44 and -65 (K != L is needed to separate kappa += l from += k), thorough = all three. Trusted: abstract interpreter soundness, hash model.",
    technique="abstract interpretation over monomorphic MIR: symbolic hash absorb lists, generator probes, loop peeling + congruence invariants, path facts on tracked call results; piecewise-affine kernel exactness",
    engine="driver-ai"),
 "C04": dict(
    category="other",
    text="Clauses of 'key generation is the FIPS 204 function of the seed', decided for every seed / generator output and all three parameter sets from one abstract run of keygen_from_seed and try_keygen_with_rng: K1 one 32-byte generator request fills xi, both entry points run the same key_gen_internal instance once and create identical hash instances, a failing generator gives Err with nothing computed and a working one gives Ok for every drawn value (no seed refused); K2 (rho, rho', K) = H(xi|k|l) read as 32|64|32 bytes with the Table 1 constants in this order; K3 ExpandA: k*l SHAKE128 instances in row-major order absorbing rho|s|r; K4 ExpandS: l+k SHAKE256 instances absorbing rho'|IntegerToBytes(r,2); K5 tr = H(whole pkEncode(rho,t1), 64); K6 exact-copy provenance: pk.rho and sk.rho are H(xi|k|l)[0..32], sk.K is [96..128], pk.tr and sk.tr the 64 bytes of the tr hash, none rewritten; K7 CoeffFromThreeBytes (all 2^24 triples incl. the q-1/q boundary), CoeffFromHalfByte (both eta), Power2Round (all of Z_q) equal their FIPS definitions (C15 engine); K8 Power2Round applied once after full reduction of all coefficients; K10 the ring arithmetic symbolically (product symbols): the first NTT is applied to exactly s1, NTT^-1 to sum_j A-hat[i][j] o NTT(s1)[j] with unit coefficients modulo q, Power2Round to that + s2; K9 a symbolic run of keygen_from_seed followed by into_bytes (sampled coefficients and Power2Round outputs as named symbols, linear forms modulo q through the transforms) shows pkEncode receives exactly t1 and skEncode exactly the sampled s1, s2 (t0 congruent with unit coefficient): the NTT/Montgomery precompute and its inverse are transparent. With C18 F the arithmetic steps of KeyGen_internal are accounted for. K11 both rejection samplers leave their loop only with 256 accepted coefficients (the counter is exactly 256 at the end of its scope in every call). Still not decided (hence level 'other'): the fill order inside RejNTTPoly / RejBoundedPoly (which accepted sample becomes which coefficient); trusted: hash implementations, NTT diagonalisation (mathematics).",
    design_ref="DESIGN.md §4 C04",
    note="Level 'other': necessary structural clauses. Trusted: abstract interpreter soundness, hash model, lib/spec.py transcription.",
    technique="abstract interpretation over monomorphic MIR: symbolic hash absorb lists and read offsets, generator probes, exact-copy provenance tags on byte arrays; piecewise-affine kernel exactness",
    engine="driver-ai"),
 "C11": dict(
    category="other",
    text="A public key is the struct (rho, tr, t1-precompute). For get_public_key on every deserialisable and every generated private key, all three sets: D1 the derived rho is an unmodified copy of the private key's rho (exact-copy provenance tag through the abstract run); D2 the derived tr is an unmodified copy of the private key's tr, or is recomputed as H(.,64) over exactly PK_LEN bytes = rho followed by k 320-byte blocks, read once at offset 0 - a zeroed, partially rewritten or partially hashed tr is reported; D3 the matrix used is ExpandA(private key's rho) with FIPS index bytes/order; D4 Power2Round applied exactly once to a fully reduced t and exact on Z_q, CoeffFromThreeBytes exact, RejNTTPoly returns only with 256 accepted coefficients (C15 engine, counter rule); D5 the derived key's precompute lies in the abstract class proved for generated/deserialised keys and verify / hash_verify / _internal_verify composed with a derived key violate no obligation. D6 the verification precompute is the same linear function of t1 modulo q in key generation, deserialisation and derivation (symbolic runs, all 256*256*k coefficients compared): keys with equal (rho, tr, t1) decide every input identically however they were built. D7 the ring arithmetic of the derivation, symbolically: t = NTT^-1(A-hat o s1-hat) + NTT^-1(s2-hat) with the key's stored precomputes divided by the Montgomery factor; together with C04 K9/K10, C09 P5 and C18 F the derived t (hence t1) equals the generated one. Trusted: hash implementations, mathematics of the NTT.",
    design_ref="DESIGN.md §4 C11",
    note="Level 'other'. The suite's own byte comparison of derived vs generated keys covers t1 on its samples; tr (ignored by serialisation) is what this check decides exactly. Trusted: abstract interpreter soundness, hash model.",
    technique="abstract interpretation over monomorphic MIR with exact-copy provenance tags on byte arrays, hash absorb-list probes, obligation discharge under key-producer composition",
    engine="driver-ai"),
 "C01": dict(
    category="other",
    text="Necessary conditions of completeness, each decided for all keys/messages/contexts/generator outputs of its class: A1 signer and verifier format M' identically and as FIPS prescribes in all four modes (C06 rules on both sides); A2 no early rejection: for verify / hash_verify x 3 / _internal_verify, every context-length class {0}, [1,254], {255} and every public-key provenance (deserialised, generated, derived) the abstract result over arbitrary signatures is not definitely false, and signing with ctx in [0,255] is definitely Ok for deserialised and generated keys (a definitely-rejected class would reject every honest signature of it); A3 the path condition at sigEncode bounds ||z|| by gamma1-beta-1 and the hint weight by omega with exactly the FIPS thresholds, the may-accept partition of verify_internal requires exactly ||z|| <= gamma1-beta-1, HintBitUnpack accepts all canonical encodings of weight up to and including omega, BitUnpack(gamma1-1,gamma1) is total; A4 both sides hash mu|w1Encode(.) of the same length and use lambda/4 bytes; A5 UseHint, Decompose/HighBits/LowBits, MakeHint, CoeffFromThreeBytes equal their FIPS definitions on the whole domain (C15 engine) so the FIPS hint lemma applies; A6 key provenance: a derived public key carries the private key's rho and tr (copied, or re-hashed with SHAKE256 over all PK_LEN bytes) and expands A from that rho (C11 rules D1-D4), so the verifier's mu with a derived key is the signer's mu. The ring identity behind w1' = w1 - hence acceptance itself - is not decided.",
    design_ref="DESIGN.md §4 C01",
    note="Level 'other': a definitely-false class or a signer/verifier bound disagreement is a proof of a C01 violation; their absence is not a proof of completeness. Quick = ML-DSA-44, thorough = all sets.",
    technique="abstract interpretation over monomorphic MIR: definite-result input classes, absorb-list agreement of sibling entry points, path facts on tracked call results (emit / accept conditions), decoder classes; piecewise-affine kernel exactness",
    engine="driver-ai"),
 "C05": dict(
    category="other",
    text="Structural half of strong binding: every byte of the signature, the serialised public key, the message and the context is shown to reach a rejecting check or a hash input. B1 signature: decoder ranges tile the signature; c-tilde is compared in full and SampleInBall absorbs all of it; every Alg. 21 malformation class (counter above omega, counter below the running index, non-increasing positions, any non-zero unused byte incl. the last, at every polynomial) is definitely rejected directly and through verify/hash_verify/_internal_verify embedded in arbitrary signatures; out-of-bound z rejected. B2 public key: decode ranges tile the key, rho is the exact copy of bytes 0..32, tr = H(all PK_LEN bytes,64) (provenance tag of the absorbed item is the whole input), verification absorbs all 64 bytes of that tr first into mu and every ExpandA instance absorbs all of that rho. B3 message/context: whole message (or FIPS OID + digest), whole context, exact length byte and mode byte absorbed into mu for every context length (C06 rules, verify side). Every bit of c-tilde, of every z field and of the public key changes the decoded value (C08 R4, bit-exact re-encoding). Not decided: the hash argument (a changed input changes the output), which the property itself names as its premise.",
    design_ref="DESIGN.md §4 C05",
    note="Level 'other'. The malleability classes the property names (hint counters, zero padding) are decided for all members of each class; the class family covers the taxonomy, not all byte strings. Quick: hint/layout/key rules on all three sets, verify-side rules on ML-DSA-44.",
    technique="abstract interpretation on abstract input classes (definite rejection) + slice-range tiling + whole-input absorb rules with exact-copy provenance",
    engine="driver-ai"),
 "C09": dict(
    category="other",
    text="For EVERY public-key byte string and EVERY accepted private-key byte string, all three sets: P1 PublicKey::try_from_bytes is total and no panic/overflow/self-check obligation is violated along try_from_bytes -> into_bytes (the skEncode range self-checks C13 assumes are discharged here); P2 rho (and K, tr) are exact copies of their input byte ranges after deserialisation and are copied unmodified into the same ranges by into_bytes (exact-copy provenance tags / segments); P3 the ring arithmetic: one symbolic abstract run of try_from_bytes followed by into_bytes in which every decoded coefficient is a named symbol and linear forms modulo q are carried through NTT, the Montgomery conversions, the 2^d scaling, inverse NTT, the centring branch and the final shift - at the call of pkEncode/skEncode every one of the 256k (resp. 256(l+2k)) coefficients is EXACTLY its own symbol, in order, so t1' = t1 on [0,1023]^(256k) and (s1,s2,t0)' = (s1,s2,t0) on all accepted values including every extremal pattern; P4 the byte codecs: encoder/decoder byte ranges identical, tiling, FIPS layout, each field decoder accepts exactly the emitted coefficient range, and pkEncode(pkDecode(b)) = b, skEncode(skDecode(b)) = b BIT FOR BIT for every accepted b (every input bit a boolean symbol; bit fields followed as exact linear forms with a low/high split rule for masks, shifts and byte extraction). P3 and P4 compose to into_bytes(try_from_bytes(b)) = b for every accepted b - the first sentence of the property is proved. P5 the converse: the private key's precomputes are the same linear functions of (s1, s2, t0) modulo q in key generation and in deserialisation (every coefficient compared); with C04 K9, P2 and C11 D6 a generated key and its re-deserialised copy hold the same rho, K, tr and precomputes that agree modulo q, and signing / verification use the precomputes only through Montgomery products reduced modulo q with all range obligations discharged for both provenances - so they behave identically. Level 'other' only because that last step is an argument over the Montgomery contracts (C15) rather than a single mechanical check.",
    design_ref="DESIGN.md §4 C09, §2.5",
    note="The byte round trip is a proof over all keys (symbols, not samples); level 'other' because of the behavioural converse. Trusted: abstract interpreter soundness incl. the linear-congruence domain and exactification by range.",
    technique="abstract interpretation over monomorphic MIR with named symbols and linear forms modulo q (LIN tier: region-result lifting through atom definitions, exactification), root chaining, exact-copy provenance",
    engine="driver-ai"),
 "C08": dict(
    category="other",
    text="R1: HintBitUnpack run on 78 (x3 sets) abstract input classes generated from (k, omega) - count above omega, count below the running index (every polynomial, two prefix shapes and the boundary member), non-increasing / repeated positions, non-zero unused bytes, each at first/middle/last position - every member of an error class is definitely rejected, every member of a canonical class definitely accepted. R2: encoder and decoder of sig/pk/sk use identical byte ranges that tile [0, LEN) and equal the FIPS 204 layout. R3: BitUnpack accepts exactly [-a, b] for every (a, b) in use (total when a+b+1 is a power of two). R5: FIPS bit layout - coefficient i of BitUnpack / SimpleBitUnpack is exactly b - sum 2^t bit(i*c+t) resp. sum 2^t bit(i*c+t) of the little-endian bit string, for every (a,b) in use. R4: bit-exact re-encoding - with every input bit a boolean symbol, skEncode(skDecode(b)) = b and pkEncode(pkDecode(b)) = b for every accepted b, and sigEncode(sigDecode(s)) reproduces c-tilde and all z fields of every accepted s bit for bit; hence decoding is injective there (no second encoding of the same key / response vector). Not decided: re-encode identity of the hint section for every accepted string (symbolic indices) - that part rests on the class family of R1.",
    design_ref="DESIGN.md §4 C08",
    note="The class family is a cover of the malformation taxonomy, not a partition of all byte strings (exhaustive: false in evidence). Trusted: abstract interpreter soundness; class verdicts transcribed from Alg. 21.",
    technique="abstract interpretation on abstract input classes (definite accept/reject) + slice-range layout probes",
    engine="driver-ai"),
 "C02": dict(
    category="other",
    text="Rejection side and decision structure. R1: every FIPS-rejected hint class embedded in an otherwise arbitrary signature is definitely rejected by verify (representatives through hash_verify and _internal_verify). R2: signatures with one coefficient field encoding |z| in [gamma1-beta, gamma1] (both signs, exactly the bound, first/last coefficient and polynomial) are definitely rejected. R3: the decision compares all lambda/4 bytes of c-tilde with the first lambda/4 bytes of H(mu || w1Encode(w1')), UseHint is applied to all 256k coefficients, SampleInBall absorbs the whole c-tilde and has the Alg. 29 skeleton (tau, squeeze order, positions, sign-bit indices, output range). R4: no overflow/self-check obligation on any verify path for arbitrary (pk, sig) and all three key provenances. R5: contexts > 255 rejected. R6: UseHint (both gamma2, h = 0, 1), Decompose/HighBits/LowBits and mod+- equal their FIPS definitions on their whole domain (C15 engine), so w1' is the FIPS w1' for every (w'_approx, h); CoeffFromThreeBytes equals Alg. 14 on all 2^24 inputs and RejNTTPoly returns only with 256 accepted coefficients (the verifier's A-hat is ExpandA's). R7: symbolic run of verify (matrix entries, decoded z, challenge, key precompute and transform outputs as named symbols, products as product symbols): NTT applied to exactly the decoded z and the challenge, w'_approx = NTT^-1(A-hat o NTT(z) - c-hat o t1*2^d) with unit / -2^-32 coefficients modulo q, UseHint applied to its coefficients; with C18 F (transforms are the FIPS maps) every arithmetic step of Verify_internal is accounted for. The acceptance side is not decided (needs hash values).",
    design_ref="DESIGN.md §4 C02",
    note="Only the reject direction and structural clauses; 'returns true iff FIPS returns true' is not established. Assumed obligations of rules/assume.json apply to R4.",
    technique="abstract interpretation on abstract signature classes through the verify entry points + hash/compare probes",
    engine="driver-ai"),
}
NA_REASON = "check not built yet in this round (static-analysis engine under construction); see DESIGN.md §8 build order"

checks = []
for i in ids:
    if i in CLAIMED:
        c = CLAIMED[i]
        checks.append({
            "property_id": i,
            "quick_cmd": "python3 bin/check %s --tier quick" % i,
            "thorough_cmd": "python3 bin/check %s --tier thorough" % i,
            "evidence_file": "evidence/%s.json" % i,
            "engine": c["engine"],
            "level_claimed": {"category": c["category"], "text": c["text"], "design_ref": c["design_ref"]},
            "level_note": c["note"],
            "technique": c["technique"],
        })
man = {
 "version": 1,
 "setup_cmd": "sh bin/setup",
 "hooks": {
    "guard": "fips204_verif",
    "enable": "none needed: the rustc_private driver reads crate-private items directly; no hook commits exist",
    "baseline_off_cmd": "cd /repo && cargo test --workspace --no-fail-fast --offline",
    "source_commits": [],
    "add_only": True,
 },
 "engines": [
   {"name": "cfg-matrix", "path": "checks/c17.py", "serves_properties": ["C17"], "kind_free_text": "feature-configuration matrix: rustc lints + MIR fingerprints"},
   {"name": "driver-facts", "path": "driver/src/facts.rs", "serves_properties": ["C16", "C17"], "kind_free_text": "type/layout/drop-glue/call-graph facts"},
   {"name": "driver-ai", "path": "driver/src/ai/", "serves_properties": ["C01", "C02", "C03", "C04", "C05", "C09", "C11", "C06", "C07", "C08", "C10", "C12", "C13", "C14", "C15", "C18"], "kind_free_text": "abstract interpreter over monomorphic MIR"},
   {"name": "driver", "path": "driver/", "serves_properties": sorted(CLAIMED), "kind_free_text": "rustc_private driver over type-checked monomorphic MIR (facts, call graph, abstract interpretation)"},
 ],
 "checks": checks,
 "not_applicable": [{"property_id": i, "reason": NA_REASON} for i in ids if i not in CLAIMED],
 "notes": "Technique family: static analysis only. See DESIGN.md.",
}
json.dump(man, open(os.path.join(HERE, "MANIFEST.json"), "w"), indent=1)
print("claimed:", sorted(CLAIMED), "n/a:", len(man["not_applicable"]))
