"""Shared orchestration for the fips204 static-analysis checks.

Every check: copies /repo's *working tree* to a scratch dir outside /repo and /verif, runs the
rustc_private driver (or plain cargo check) there, evaluates rules over the facts the driver
extracted from the current source, writes /verif/evidence/<ID>.json and prints VIOLATION /
KNOWN-FINDING lines.  Nothing here executes the library.
"""
import fcntl
import hashlib
import json
import os
import shutil
import subprocess
import sys
import tempfile
import time

VERIF = os.path.dirname(os.path.dirname(os.path.abspath(__file__)))
REPO = os.environ.get("VERIF_REPO", "/repo")
DRIVER = os.path.join(VERIF, "driver", "target", "release", "fips204-verif-driver")
CACHE = os.path.join(VERIF, ".cache")
EVID = os.path.join(VERIF, "evidence")

FLAGS = {
    # value analyses: every self-check and overflow check is an explicit MIR terminator
    "dbg": "-Zmir-opt-level=0 -Zub-checks=no -Zalways-encode-mir -C debug-assertions=on -C overflow-checks=on -Awarnings",
    # configuration dudect measures: no debug assertions, no overflow checks
    "rel": "-Zmir-opt-level=0 -Zub-checks=no -Zalways-encode-mir -C debug-assertions=off -C overflow-checks=off -Awarnings",
}


def sysroot_lib():
    out = subprocess.run(["rustc", "+nightly", "--print", "sysroot"], capture_output=True, text=True, check=True)
    return os.path.join(out.stdout.strip(), "lib")


def ensure_driver():
    """Build the driver if missing or older than its sources."""
    src = os.path.join(VERIF, "driver", "src")
    newest = max(os.path.getmtime(os.path.join(src, f)) for f in os.listdir(src))
    if os.path.exists(DRIVER) and os.path.getmtime(DRIVER) >= newest:
        return
    env = dict(os.environ, CARGO_NET_OFFLINE="true")
    r = subprocess.run(["cargo", "build", "--release", "--offline"], cwd=os.path.join(VERIF, "driver"),
                       env=env, capture_output=True, text=True)
    if r.returncode != 0:
        sys.stderr.write(r.stdout + r.stderr)
        raise SystemExit("driver build failed")


class Scratch:
    """Copy of /repo's working tree (not HEAD) outside /repo and /verif; removed on exit."""

    def __init__(self):
        self.dir = None

    def __enter__(self):
        base = os.environ.get("VERIF_SCRATCH_BASE", tempfile.gettempdir())
        self.dir = tempfile.mkdtemp(prefix="fv-", dir=base)
        r = subprocess.run(["rsync", "-a", "--exclude", "target", "--exclude", ".git", REPO + "/", self.dir + "/"],
                           capture_output=True, text=True)
        if r.returncode != 0:
            raise SystemExit("rsync failed: " + r.stderr)
        return self

    def __exit__(self, *a):
        if self.dir and os.path.isdir(self.dir) and not os.environ.get("VERIF_KEEP_SCRATCH"):
            shutil.rmtree(self.dir, ignore_errors=True)

    def tree_hash(self):
        h = hashlib.sha256()
        for root, dirs, files in os.walk(self.dir):
            dirs.sort()
            if "target" in dirs:
                dirs.remove("target")
            for f in sorted(files):
                p = os.path.join(root, f)
                if f.endswith(".rs") or f in ("Cargo.toml", "Cargo.lock"):
                    h.update(os.path.relpath(p, self.dir).encode())
                    with open(p, "rb") as fh:
                        h.update(fh.read())
        return h.hexdigest()[:16]


def prune_stale(tdir, max_age=3 * 3600):
    now = time.time()
    for sub in ("debug/.fingerprint", "debug/deps", "debug/incremental"):
        d = os.path.join(tdir, sub)
        if not os.path.isdir(d):
            continue
        for f in os.listdir(d):
            if f.startswith("fips204-") or f.startswith("libfips204-"):
                p = os.path.join(d, f)
                try:
                    if now - os.path.getmtime(p) > max_age:
                        if os.path.isdir(p):
                            shutil.rmtree(p, ignore_errors=True)
                        else:
                            os.remove(p)
                except OSError:
                    pass


def feature_args(features=None, no_default=False):
    a = []
    if no_default:
        a.append("--no-default-features")
    if features:
        a += ["--features", ",".join(features)]
    return a


class Fixture:
    """A fixture crate under /verif/selftest/fixtures copied to scratch (positive controls)."""

    def __init__(self, name):
        self.name = name
        self.dir = None

    def __enter__(self):
        base = os.environ.get("VERIF_SCRATCH_BASE", tempfile.gettempdir())
        self.dir = tempfile.mkdtemp(prefix="fvfx-", dir=base)
        src = os.path.join(VERIF, "selftest", "fixtures", self.name)
        subprocess.run(["rsync", "-a", "--exclude", "target", src + "/", self.dir + "/"], check=True)
        return self

    def __exit__(self, *a):
        shutil.rmtree(self.dir, ignore_errors=True)


def run_driver(scratch, mode, flags="dbg", features=None, no_default=False, env_extra=None, tag="x", timeout=3000, target="target"):
    """Run the driver over the library target of the scratch copy. Returns (json, stderr, seconds)."""
    ensure_driver()
    os.makedirs(CACHE, exist_ok=True)
    out = os.path.join(scratch.dir, "verif-out-%s-%s.json" % (mode, tag))
    if os.path.exists(out):
        os.remove(out)
    # cargo locks its build directory: concurrent runs each take a free slot (own target dir)
    slot_fh, slot = acquire_slot("%s-%s" % (target, flags))
    tdir = os.path.join(CACHE, "%s-%s" % (target, flags) + ("" if slot == 0 else "-slot%d" % slot))
    try:
        return _run_driver(scratch, mode, flags, features, no_default, env_extra, tag, timeout, tdir, out)
    finally:
        try:
            fcntl.flock(slot_fh, fcntl.LOCK_UN)
            slot_fh.close()
        except OSError:
            pass


def acquire_slot(name, n=8):
    os.makedirs(CACHE, exist_ok=True)
    fhs = []
    for i in range(n):
        fh = open(os.path.join(CACHE, "slot-%s-%d.lock" % (name, i)), "w")
        try:
            fcntl.flock(fh, fcntl.LOCK_EX | fcntl.LOCK_NB)
            for o in fhs:
                o.close()
            return fh, i
        except OSError:
            fhs.append(fh)
    for o in fhs[1:]:
        o.close()
    fcntl.flock(fhs[0], fcntl.LOCK_EX)
    return fhs[0], 0


def _run_driver(scratch, mode, flags, features, no_default, env_extra, tag, timeout, tdir, out):
    env = dict(os.environ)
    env.update({
        "LD_LIBRARY_PATH": sysroot_lib() + ":" + env.get("LD_LIBRARY_PATH", ""),
        "RUSTFLAGS": FLAGS[flags],
        "RUSTC_WORKSPACE_WRAPPER": DRIVER,
        "CARGO_TARGET_DIR": tdir,
        "CARGO_NET_OFFLINE": "true",
        "CARGO_INCREMENTAL": "0",
        "VERIF_MODE": mode,
        "VERIF_OUT": out,
    })
    if env_extra:
        env.update(env_extra)
    # cargo's freshness cache must never skip the wrapper for the crate under analysis: the scratch
    # path is fresh per run, so the package id (hence the fingerprint) is new every time; we also
    # assert below that the fact file was written by this run.  Stale per-run artefacts are pruned.
    prune_stale(tdir)
    t0 = time.time()
    nonce = "verif_nonce_%d_%d" % (os.getpid(), int(time.time() * 1e6))
    cmd = ["cargo", "+nightly", "rustc", "--offline", "--lib", "--profile", "check"] + feature_args(features, no_default) \
        + ["--", "--cfg", nonce]
    r = subprocess.run(cmd, cwd=scratch.dir, env=env, capture_output=True, text=True, timeout=timeout)
    dt = time.time() - t0
    if r.returncode != 0 or not os.path.exists(out):
        return None, r.stdout + r.stderr, dt
    with open(out) as fh:
        data = json.load(fh)
    return data, r.stderr, dt


# ---------------------------------------------------------------------------------------------
# reporting

def load_known():
    p = os.path.join(VERIF, "known_findings.json")
    if not os.path.exists(p):
        return {"findings": [], "fixed": []}
    with open(p) as fh:
        return json.load(fh)


class Report:
    def __init__(self, pid, tier):
        self.pid = pid
        self.tier = tier
        self.t0 = time.time()
        self.violations = []   # (key, detail)
        self.known_hits = []
        self.notes = []
        self.known = [f for f in load_known().get("findings", []) if f["property"] == pid]
        rdir = os.path.join(EVID, "replay", pid + os.environ.get("VERIF_EVID_SUFFIX", ""))
        self.rdir = rdir
        if os.path.isdir(rdir):
            shutil.rmtree(rdir, ignore_errors=True)

    def violation(self, key, detail):
        """key: stable identifier without line numbers; detail: dict (diagnosable report)."""
        for f in self.known:
            if f["key"] == key:
                if key not in [k for k, _ in self.known_hits]:
                    self.known_hits.append((key, f.get("what", "")))
                return
        if key in [k for k, _ in self.violations]:
            return
        self.violations.append((key, detail))

    def finish(self, level, coverage, assumptions):
        os.makedirs(EVID, exist_ok=True)
        for key, what in self.known_hits:
            print("KNOWN-FINDING: property=%s %s -- %s" % (self.pid, key, what))
        rc = 0
        for key, detail in self.violations:
            rdir = self.rdir
            os.makedirs(rdir, exist_ok=True)
            name = hashlib.sha256(key.encode()).hexdigest()[:12] + ".json"
            path = os.path.join(rdir, name)
            with open(path, "w") as fh:
                json.dump({"property": self.pid, "key": key, "detail": detail}, fh, indent=1, sort_keys=True)
            print("VIOLATION property=%s replay=%s" % (self.pid, path))
            print("  key: %s" % key)
            d = detail if isinstance(detail, str) else json.dumps(detail, sort_keys=True)
            print("  " + d[:1500])
            rc = 1
        coverage = dict(coverage)
        coverage.setdefault("known_findings_hit", [k for k, _ in self.known_hits])
        ev = {
            "property_id": self.pid,
            "tier": self.tier,
            "seed": int(os.environ.get("VERIF_SEED", "0") or 0),
            "level": level,
            "coverage": coverage,
            "assumptions": assumptions,
            "wall_s": round(time.time() - self.t0, 2),
            "violations": len(self.violations),
        }
        with open(os.path.join(EVID, self.pid + os.environ.get("VERIF_EVID_SUFFIX", "") + ".json"), "w") as fh:
            json.dump(ev, fh, indent=1, sort_keys=True)
        print("%s %s: %d violation(s), %d known finding(s), %.1fs" % (self.pid, self.tier, len(self.violations), len(self.known_hits), ev["wall_s"]))
        return rc


def fail_closed(rep, what, detail):
    rep.violation("fail-closed:" + what, {"rule": "fail-closed", "what": what, "detail": detail})


def run_ai(scratch, jobs, flags="dbg", features=None, no_default=False, tag="ai", env_extra=None, timeout=3000):
    """jobs: list of (id, root, {opt: value}) -> driver result dict (or None, stderr)."""
    path = os.path.join(scratch.dir, "verif-jobs-%s.tsv" % tag)
    with open(path, "w") as fh:
        for jid, root, opts in jobs:
            fh.write("\t".join([jid, root] + ["%s=%s" % kv for kv in sorted(opts.items())]) + "\n")
    env = {"VERIF_JOBS": path}
    if env_extra:
        env.update(env_extra)
    return run_driver(scratch, "ai", flags=flags, features=features, no_default=no_default, env_extra=env, tag=tag, timeout=timeout)
