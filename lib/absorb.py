"""Helpers over the driver's hash probes: absorb lists (what each SHAKE/SHA instance was fed, in order)."""
import json

OIDS = {  # FIPS 204 Alg. 4 / 5: DER-encoded OIDs of the pre-hash functions and their digest lengths
    0: ("SHA256", "Sha256", "0609608648016503040201", 32),
    1: ("SHA512", "Sha512", "0609608648016503040203", 64),
    2: ("SHAKE128", "Shake128", "060960864801650304020b", 32),
}


def sites(job, what="xof"):
    out = []
    for p in job["probes"]:
        if p["what"] != what:
            continue
        d = p["data"]
        items = json.loads(d["items"]) if "items" in d else []
        out.append({"path": d.get("path", ""), "kind": d.get("kind"), "items": items, "id": d.get("id"), "rendered": d.get("absorbed", ""), "len": d.get("len")})
    return out


def reads(job, xid):
    return [p["data"] for p in job["probes"] if p["what"] == "xof_read" and p["data"].get("id") == xid]


def shape(items):
    """compact shape of an absorb list: (len or (lo,hi), const hex or None) per item"""
    out = []
    for it in items:
        lo, hi = it["len"]
        out.append(((lo if lo == hi else (lo, hi)), it["consts"]))
    return out
