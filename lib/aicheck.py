"""Helpers shared by the abstract-interpretation checks: run jobs per parameter set in parallel,
classify violated obligations against the assume table and known findings."""
import json
import os
import re
import sys
from concurrent.futures import ThreadPoolExecutor

import roots
import vlib

PARAMS = {  # FIPS 204 Table 1 (transcribed; cross-checked against the constants the analysis sees)
    "44": dict(q=8380417, d=13, tau=39, lam=128, gamma1=1 << 17, gamma2=(8380417 - 1) // 88, k=4, l=4, eta=2, beta=78, omega=80,
               sk_len=2560, pk_len=1312, sig_len=2420),
    "65": dict(q=8380417, d=13, tau=49, lam=192, gamma1=1 << 19, gamma2=(8380417 - 1) // 32, k=6, l=5, eta=4, beta=196, omega=55,
               sk_len=4032, pk_len=1952, sig_len=3309),
    "87": dict(q=8380417, d=13, tau=60, lam=256, gamma1=1 << 19, gamma2=(8380417 - 1) // 32, k=8, l=7, eta=2, beta=120, omega=75,
               sk_len=4896, pk_len=2592, sig_len=4627),
}


def sets_for(tier):
    return ["44"] if tier == "quick" else ["44", "65", "87"]


def run_sets(jobs_by_set, flags="dbg", features=None, env_extra=None, timeout=7200):
    """jobs_by_set: {set: [(id, root, opts)]} -> {set: result or None}, errors"""
    out = {}
    errs = {}

    def one(s):
        with vlib.Scratch() as sc:
            r, err, dt = vlib.run_ai(sc, jobs_by_set[s], flags=flags, features=features, tag="s" + re.sub(r"[^A-Za-z0-9_.-]", "_", s), env_extra=env_extra, timeout=timeout)
            return s, r, err, dt

    with ThreadPoolExecutor(max_workers=6) as ex:
        for s, r, err, dt in ex.map(one, list(jobs_by_set)):
            out[s] = r
            if r is None:
                errs[s] = err[-3000:]
            else:
                r["_wall"] = dt
    return out, errs


def strip_generics(name):
    """`ntt::inv_ntt::<4_usize>` -> `ntt::inv_ntt`; closure suffixes kept"""
    out = ""
    depth = 0
    i = 0
    while i < len(name):
        if name.startswith("::<", i):
            depth += 1
            i += 3
            continue
        c = name[i]
        if depth > 0:
            if c == "<":
                depth += 1
            elif c == ">":
                depth -= 1
            i += 1
            continue
        out += c
        i += 1
    return out


def stable_key(site):
    """violation key without line numbers / block indices / parameter-set generics"""
    fn = strip_generics(site["inst"])
    kind = site["kind"]
    msg = site.get("msg", "")
    if kind.startswith("assert:"):
        k = re.sub(r"\s*\{.*", "", kind)  # BoundsCheck { len: .. } -> BoundsCheck
        # operand types / constants, never the source text of the expression (a rename must not change the key)
        return "%s|%s|%s" % (fn, k, site.get("shape") or msg)
    if kind.startswith("panic:"):
        return "%s|%s|%s" % (fn, kind, msg if msg else "-")
    return "%s|%s|%s" % (fn, kind, msg)


def load_assume():
    p = os.path.join(vlib.VERIF, "rules", "assume.json")
    with open(p) as fh:
        return json.load(fh)["assume"]


def classify(sites, assume):
    """-> (violations, assumed, stale) ; violations: list of site dicts with 'skey'"""
    viol = []
    assumed = []
    used = set()
    for s in sites:
        if not s["violated"]:
            continue
        k = stable_key(s)
        s = dict(s, skey=k)
        hit = None
        for a in assume:
            if a["key"] != k:
                continue
            pats = a.get("ctx_any")
            if pats:
                ctxs = s.get("ctxs") or []
                if not ctxs or not all(any(re.search(p, c) for p in pats) for c in ctxs):
                    continue
            hit = a
            break
        if hit is not None:
            used.add(hit["key"] + "|" + ",".join(hit.get("ctx_any", [])))
            assumed.append(s)
        else:
            viol.append(s)
    return viol, assumed, used


def site_report(s):
    return {"rule": "panic obligation not discharged", "function": s["inst"], "kind": s["kind"], "message": s.get("msg"), "operands": s.get("shape"), "site": s["site"],
            "abstract_witness": s.get("witness"), "reached_from_roots": s.get("roots"), "call_paths": s.get("ctxs")}
