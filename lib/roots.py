"""Root instances of the public API per parameter set, and the producer/consumer compositions."""

SETS = {"44": (4, 4), "65": (6, 5), "87": (8, 7)}
FEATURE = {"44": "ml-dsa-44", "65": "ml-dsa-65", "87": "ml-dsa-87"}
RNG = "impl CryptoRngCore/#0"


def names(s):
    m = "ml_dsa_%s" % s
    k, l = SETS[s]
    sk = "types::PrivateKey<%d_usize, %d_usize>" % (k, l)
    return {
        "keygen_from_seed": "<%s::KG as traits::KeyGen>::keygen_from_seed" % m,
        "try_keygen_with_rng": "<%s::KG as traits::KeyGen>::try_keygen_with_rng::<%s>" % (m, RNG),
        "mod_try_keygen_with_rng": "%s::try_keygen_with_rng::<%s>" % (m, RNG),
        "mod_try_keygen": "%s::try_keygen" % m,
        "trait_try_keygen": "traits::KeyGen::try_keygen::<%s::KG>" % m,
        "sk_from_bytes": "%s::<impl traits::SerDes for types::PrivateKey<K, L>>::try_from_bytes" % m,
        "sk_into_bytes": "%s::<impl traits::SerDes for types::PrivateKey<K, L>>::into_bytes" % m,
        "pk_from_bytes": "%s::<impl traits::SerDes for types::PublicKey<K, L>>::try_from_bytes" % m,
        "pk_into_bytes": "%s::<impl traits::SerDes for types::PublicKey<K, L>>::into_bytes" % m,
        "get_public_key": "%s::<impl traits::Signer for types::PrivateKey<K, L>>::get_public_key" % m,
        "try_sign_with_rng": "%s::<impl traits::Signer for types::PrivateKey<K, L>>::try_sign_with_rng::<%s>" % (m, RNG),
        "try_hash_sign_with_rng": "%s::<impl traits::Signer for types::PrivateKey<K, L>>::try_hash_sign_with_rng::<%s>" % (m, RNG),
        "try_sign": "traits::Signer::try_sign::<%s>" % sk,
        "try_hash_sign": "traits::Signer::try_hash_sign::<%s>" % sk,
        "verify": "%s::<impl traits::Verifier for types::PublicKey<K, L>>::verify" % m,
        "hash_verify": "%s::<impl traits::Verifier for types::PublicKey<K, L>>::hash_verify" % m,
        "internal_sign": "%s::_internal_sign" % m,
        "internal_verify": "%s::_internal_verify" % m,
    }


SK_PRODUCERS = ["from_bytes", "keygen"]
PK_PRODUCERS = ["from_bytes", "keygen", "derived_from_bytes"]


def api_jobs(s, tier="quick"):
    """(job id, root, opts) for every public entry point of a set, composed with each key producer."""
    n = names(s)
    jobs = []
    j = lambda jid, root, **o: jobs.append(("%s:%s" % (s, jid), n[root], {k: str(v) for k, v in o.items()}))
    j("keygen_from_seed", "keygen_from_seed")
    j("try_keygen_with_rng", "try_keygen_with_rng")
    j("sk_from_bytes", "sk_from_bytes")
    j("pk_from_bytes", "pk_from_bytes")
    for p in SK_PRODUCERS:
        j("sk_into_bytes/%s" % p, "sk_into_bytes", sk=p)
        j("get_public_key/%s" % p, "get_public_key", sk=p)
        j("try_sign_with_rng/%s" % p, "try_sign_with_rng", sk=p)
        j("try_hash_sign_with_rng/%s" % p, "try_hash_sign_with_rng", sk=p)
        j("internal_sign/%s" % p, "internal_sign", sk=p)
    for p in PK_PRODUCERS:
        j("pk_into_bytes/%s" % p, "pk_into_bytes", pk=p)
        j("verify/%s" % p, "verify", pk=p)
        j("hash_verify/%s" % p, "hash_verify", pk=p)
        j("internal_verify/%s" % p, "internal_verify", pk=p)
    # OS-RNG convenience wrappers (default-rng feature)
    j("mod_try_keygen", "mod_try_keygen")
    j("mod_try_keygen_with_rng", "mod_try_keygen_with_rng")
    j("try_sign/from_bytes", "try_sign", sk="from_bytes")
    j("try_hash_sign/from_bytes", "try_hash_sign", sk="from_bytes")
    return jobs
