"""Structural rules over the hash probes of an abstract run, shared by the C01/C03/C04/C09/C11 checks.

Every rule takes the job result of the driver (ai mode), the parameter table of the set and an
`ob(ok, key, detail)` callback; keys carry no line numbers.  A missing anchor (no site found) is a
failed obligation: the rules fail closed.
"""
import json
import re

import absorb


def bitlen(x):
    return x.bit_length()


def le16(n):
    return "%02x%02x" % (n & 255, (n >> 8) & 255)


def sites_under(job, suffix, kind=None):
    return [x for x in absorb.sites(job, "xof") if x["path"].endswith(suffix) and (kind is None or x["kind"] == kind)]


def dedup(sites):
    """the same site replayed from a memoised call appears once"""
    seen, out = set(), []
    for x in sites:
        if x["id"] in seen:
            continue
        seen.add(x["id"])
        out.append(x)
    return out


def expand_a(job, P, ob, where, entry, rho_ok):
    """ExpandA (Alg. 32): k*l SHAKE128 instances in row-major order; instance (r, s) absorbs
    rho(32) | IntegerToBytes(s, 1) | IntegerToBytes(r, 1); coefficients come from 3-byte reads."""
    k, l = P["k"], P["l"]
    suffix = "expand_a>rej_ntt_poly>g128_xof" if where is None else "%s>expand_a>rej_ntt_poly>g128_xof" % where
    xs = dedup(sites_under(job, suffix, "Shake128"))
    ok = len(xs) == k * l
    bad = None
    srcs = set()
    if ok:
        for t, x in enumerate(xs):
            it = x["items"]
            r, s = divmod(t, l)
            good = len(it) == 3 and it[0]["len"] == [32, 32] and rho_ok(it[0]["src"]) and it[1]["len"] == [1, 1] and it[1]["consts"] == "%02x" % s \
                and it[2]["len"] == [1, 1] and it[2]["consts"] == "%02x" % r
            rd = absorb.reads(job, x["id"])
            good = good and len(rd) >= 1  # read granularity is not semantic (the XOF model keeps reads sequential)
            if good:
                srcs.add(it[0]["src"])
            else:
                ok = False
                bad = {"instance": t, "expected": "rho(32) | %02x | %02x" % (s, r), "absorbed": x["rendered"][:200], "reads": rd[:3]}
                break
    ob(ok and len(srcs) == 1, "expand-a:%s" % entry,
       {"rule": "ExpandA: k*l SHAKE128 instances in row-major order, exactly one instance per matrix entry, instance (r,s) absorbs rho | s | r", "entry": job["root"],
        "instances_found": len(xs), "expected": k * l, "first_mismatch": bad, "rho_sources": sorted(srcs)})
    return sorted(srcs)[0] if len(srcs) == 1 else None


def expand_s(job, P, ob, where, entry, seed_ok):
    """ExpandS (Alg. 33): l+k SHAKE256 instances; instance r absorbs rho'(64) | IntegerToBytes(r, 2)."""
    k, l = P["k"], P["l"]
    xs = dedup(sites_under(job, "%s>expand_s>rej_bounded_poly>h256_xof" % where, "Shake256"))
    ok = len(xs) == k + l
    bad = None
    if ok:
        for t, x in enumerate(xs):
            it = x["items"]
            ctr = "".join(i["consts"] or "??" for i in it[1:])
            good = len(it) in (2, 3) and it[0]["len"] == [64, 64] and seed_ok(it[0]["src"]) and sum(i["len"][0] for i in it[1:]) == 2 and ctr == le16(t)
            rd = absorb.reads(job, x["id"])
            good = good and len(rd) >= 1
            if not good:
                ok = False
                bad = {"instance": t, "expected": "rho'(64) | %s" % le16(t), "absorbed": x["rendered"][:200], "reads": rd[:3]}
                break
    ob(ok, "expand-s:%s" % entry, {"rule": "ExpandS: l+k SHAKE256 instances in order, exactly one instance per polynomial, instance r absorbs rho' | IntegerToBytes(r, 2)",
                                   "entry": job["root"], "instances_found": len(xs), "expected": k + l, "first_mismatch": bad})


SAMPLER_PROBES = "hashing::rej_ntt_poly|hashing::rej_bounded_poly"


def sampler_fill(job, ob, entry, expected):
    """Alg. 30 / 31 return only when all 256 coefficients have been drawn: in every call of the rejection
    samplers reachable from this entry, a counter variable of the function is exactly 256 when its storage ends
    (job option probe must include SAMPLER_PROBES).  expected: {function: number of calls}."""
    for fn, want in expected.items():
        pr = ret_probes(job, "hashing::%s" % fn)
        bad = []
        for p in pr:
            ends = dict(x.split("=", 1) for x in (p["data"].get("scope_end") or "").split(";") if "=" in x)
            if "[256,256]" not in ends.values():
                bad.append({"call": p["data"].get("path", "")[-120:], "final_values_of_named_integer_variables": ends})
        ob(len(pr) >= want and not bad, "sampler-fills-256:%s:%s" % (fn, entry),
           {"rule": "the rejection sampler leaves its loop only with 256 accepted coefficients (a counter variable is exactly 256 at the end of its scope on every path to the return)",
            "entry": job["root"], "function": fn, "calls_analysed": len(pr), "calls_expected_at_least": want, "offending": bad[:2]})


def sample_in_ball_shape(job, P, ob, entry, sib_sites, min_calls=1):
    """Alg. 29 skeleton, decided on every activation of SampleInBall reachable from this entry (job option probe
    must include hashing::sample_in_ball).  Hash output values are opaque; what is decided is the part of the
    shuffle that is visible in the shape of the code:
      SB1 tau handed to the function is FIPS 204 Table 1's;
      SB2 the instance's first squeeze is the 8 sign bytes at offset 0, every later squeeze is one index byte,
          the first of them at offset 8;
      SB3 every returned coefficient is in {-1, 0, 1};
      SB4 the outer loop visits exactly positions 256-tau .. 255 and the sign-bit index covers exactly 0 .. tau-1
          (some named variable ends its scope with each of these exact intervals; no name is matched)."""
    tau = P["tau"]
    pr = ret_probes(job, "hashing::sample_in_ball")
    bad = []
    for p in pr:
        d = p["data"]
        args = (d.get("args") or "").split(" ; ")
        ends = dict(x.split("=", 1) for x in (d.get("scope_end") or "").split(";") if "=" in x)
        try:
            ret = json.loads(d.get("ret") or "null")
        except ValueError:
            ret = None
        rng = None
        v = ret
        while isinstance(v, list) and len(v) == 1:
            v = v[0]
        while isinstance(v, dict) and "arr_len" in v:
            n_ = v["arr_len"]
            v = v["elems"]
            while isinstance(v, list) and len(v) == 1:
                v = v[0]
        if isinstance(v, dict) and "int" in v:
            rng = tuple(v["int"])
        why = []
        if not args or args[0] != str(tau):
            why.append("SB1 tau=%s, expected %d" % (args[:1], tau))
        if rng is None or rng[0] < -1 or rng[1] > 1:
            why.append("SB3 coefficient range %s not within [-1,1]" % (rng,))
        if "[%d,255]" % (256 - tau) not in ends.values():
            why.append("SB4 no variable ranges over exactly the positions %d..255" % (256 - tau))
        if "[0,%d]" % (tau - 1) not in ends.values():
            why.append("SB4 no variable ranges over exactly the sign-bit indices 0..%d" % (tau - 1))
        if why:
            bad.append({"call": d.get("path", "")[-120:], "why": why, "final_values_of_named_integer_variables": ends})
    rbad = []
    for x in sib_sites:
        rd = absorb.reads(job, x["id"])
        # the same instance may be recorded by several activations (peeled iterations, replayed summaries): split the
        # recorded reads into runs that each start at stream offset 0
        runs = []
        for r in rd:
            if r["off"] == "0..0" or not runs:
                runs.append([])
            runs[-1].append(r)
        ok = any(len(run) >= 2 for run in runs) and all(
            run[0]["len"] == "8" and run[0]["off"] == "0..0" and run[0]["dest_start"] == "0" and all(r["len"] == "1" for r in run[1:])
            and (len(run) < 2 or run[1]["off"] == "8..8") for run in runs)
        if not ok:
            rbad.append({"instance": x["rendered"][:80], "reads": [{k: r.get(k) for k in ("len", "off", "dest_start")} for r in rd[:8]]})
    ob(len(pr) >= min_calls and len(sib_sites) >= min_calls and not bad and not rbad, "sample-in-ball-skeleton:%s" % entry,
       {"rule": "SampleInBall skeleton (Alg. 29): tau of Table 1; 8 sign bytes squeezed first, then single index bytes from offset 8; positions 256-tau..255 visited, "
                "sign-bit index 0..tau-1; coefficients in {-1,0,1}", "entry": job["root"], "tau": tau, "activations_analysed": len(pr), "hash_instances": len(sib_sites),
        "offending": bad[:2], "offending_reads": rbad[:2]})


def single_read(job, site, length, dest_suffix):
    rd = absorb.reads(job, site["id"])
    return len(rd) == 1 and rd[0]["len"] == str(length) and rd[0]["off"] == "0..0" and rd[0]["dest"].endswith(dest_suffix) and rd[0]["dest_start"] == "0", rd


def rng_calls(job):
    return [p["data"] for p in job["probes"] if p["what"] == "rng_call"]


def ret_probes(job, inst_prefix):
    return [p for p in job["probes"] if p["what"] == "ret" and p["inst"].startswith(inst_prefix) and "{closure" not in p["inst"]]


def parse_facts(s):
    out = {}
    for part in (s or "").split(" ;; "):
        m = re.match(r"^(.*) => \[(-?\d+),(-?\d+)\]$", part.strip())
        if m:
            out[m.group(1)] = (int(m.group(2)), int(m.group(3)))
    return out


def emit_condition(j, P, s, ent, ob, prefix):
    """path condition at the call of sigEncode in sign_internal: the four rejection quantities are
    bounded by exactly the thresholds of FIPS 204 Alg. 7 lines 23 / 28 (needs the job options
    probe=encodings::sig_encode and track_ret=helpers::infinity_norm|Iterator::sum)"""
    k, l = P["k"], P["l"]
    se = ret_probes(j, "encodings::sig_encode")
    facts = {}
    for p in se:
        for kx, v in parse_facts(p["data"].get("facts")).items():
            if kx in facts:
                v = (min(v[0], facts[kx][0]), max(v[1], facts[kx][1]))
            facts[kx] = v
    norms = {kx: v for kx, v in facts.items() if kx.startswith("sign_internal: helpers::infinity_norm(")}
    sums = {kx: v for kx, v in facts.items() if kx.startswith("sign_internal: ") and "Iterator::sum" in kx}
    want = sorted([P["gamma1"] - P["beta"] - 1, P["gamma2"] - P["beta"] - 1, P["gamma2"] - 1])
    okn = len(se) >= 1 and sorted(v[1] for v in norms.values()) == want and all(v[0] == 0 for v in norms.values())
    if okn and k != l:
        zf = [v for kx, v in norms.items() if kx.endswith("#%d)" % l)]
        okn = len(zf) == 1 and zf[0][1] == P["gamma1"] - P["beta"] - 1
    ob(okn, "%s:emit-norm-bounds:%s" % (prefix, ent), {"rule": "%s a signature is emitted only when ||z|| < gamma1-beta, ||r0|| < gamma2-beta, ||ct0|| < gamma2, with exactly these thresholds" % prefix,
                                                       "entry": j["root"], "set": s, "path_condition_at_sigEncode": {kx: list(v) for kx, v in norms.items()}, "expected_upper_bounds": want})
    oksum = len(sums) == 1 and list(sums.values())[0][1] == P["omega"]
    ob(oksum, "%s:emit-hint-weight:%s" % (prefix, ent), {"rule": "%s a signature is emitted only when the hint has at most omega ones, with exactly this threshold" % prefix, "entry": j["root"], "set": s,
                                                         "path_condition_at_sigEncode": {kx: list(v) for kx, v in sums.items()}, "omega": P["omega"]})
    return norms, sums


def accept_condition(j, P, s, ent, ob, prefix):
    """path condition of the may-accept partition of verify_internal: ||z|| <= gamma1-beta-1 exactly
    (needs probe=ml_dsa::verify_internal and track_ret=helpers::infinity_norm)"""
    rp = ret_probes(j, "ml_dsa::verify_internal")
    bound = None
    seen = []
    for p in rp:
        for part in p["data"].get("ret_facts", "").split(" || "):
            if " <= " not in part:
                continue
            val, fs = part.split(" <= ", 1)
            seen.append(part[:200])
            if val.strip() == "0":
                continue
            f = {kx: v for kx, v in parse_facts(fs).items() if kx.startswith("verify_internal: helpers::infinity_norm(")}
            if len(f) == 1:
                b = list(f.values())[0]
                bound = b if bound is None else (min(bound[0], b[0]), max(bound[1], b[1]))
            else:
                bound = (0, None)
    want = P["gamma1"] - P["beta"] - 1
    ob(bound is not None and bound[1] == want and bound[0] == 0, "%s:accept-norm-bound:%s" % (prefix, ent),
       {"rule": "%s verification can return true only when ||z|| < gamma1 - beta, and with exactly this threshold (so every ||z|| the signer emits is accepted)" % prefix,
        "entry": j["root"], "set": s, "path_condition_of_accept_partition": seen[:4], "expected_upper_bound": want})
    return bound


def named_structs(job):
    """{struct path: {field name: result node}} for every struct reachable in a job's result through Ok
    variants / tuples, aligned with the driver's `ret_type` shape (robust to field reordering)"""
    out = {}

    def walk(shape, node):
        if not isinstance(shape, dict) or node is None:
            return
        if "struct" in shape:
            fs = shape["fields"]
            if isinstance(node, list) and len(node) == len(fs):
                d = out.setdefault(shape["struct"], {})
                for (nm, sh), nd in zip(fs, node):
                    d[nm] = nd
                    walk(sh, nd)
        elif "tuple" in shape:
            if isinstance(node, list) and len(node) == len(shape["tuple"]):
                for sh, nd in zip(shape["tuple"], node):
                    walk(sh, nd)
        elif "enum" in shape:
            if isinstance(node, dict) and "enum" in node:
                for i, (vn, shs) in enumerate(shape["variants"]):
                    nds = node["enum"].get("v%d" % i)
                    if nds is not None:
                        for sh, nd in zip(shs, nds):
                            walk(sh, nd)

    walk(job.get("ret_type"), job.get("result"))
    return out


def byte_fields(struct_fields):
    """{name: (len, tag)} of the byte-array fields of a struct from named_structs"""
    out = {}
    for nm, nd in (struct_fields or {}).items():
        if isinstance(nd, dict) and "arr_len" in nd and isinstance(nd.get("elems"), dict) and nd["elems"].get("int") == [0, 255]:
            out[nm] = (nd["arr_len"], nd.get("tag"))
    return out


def read_tag(site_id, length, off=0):
    return "xof%s@%d+%d" % (site_id, off, length)


def flows_from(item, job, site, length):
    """the absorbed item is exactly the `length` bytes read at offset 0 from hash instance `site`:
    decided by the exact-copy provenance tag; falls back to 'same buffer name' when the tag was lost at a join"""
    tag = item.get("tag")
    if tag is not None and tag.startswith("xof"):
        # a probe replayed from a memoised call made in an earlier job carries that job's instance ids
        ids = job.setdefault("_xof_ids", {x["id"] for x in absorb.sites(job, "xof")})
        if tag[3:].split("@")[0] not in ids:
            tag = None
    if tag is not None:
        return tag == read_tag(site["id"], length)
    rd = absorb.reads(job, site["id"])
    return len(rd) >= 1 and rd[0]["dest"] == item["src"]


def hash_roles(job, key_tag):
    """Bind the FIPS roles of the SHAKE256 instances of a signing / verification run by DATAFLOW (what each
    instance absorbs and where its output goes), independent of call paths and local variable names.
    key_tag: 'sk.tr' or 'pk.tr'.  Returns dict with lists: mu, rho2, commit and the FIPS-named helpers' sites."""
    xs = dedup(absorb.sites(job, "xof"))
    sh = [x for x in xs if x["kind"] == "Shake256" and x["items"]]
    mu = [x for x in sh if x["items"][0]["len"] == [64, 64] and (x["items"][0].get("tag") == key_tag) and len(x["items"]) >= 2]
    out = {"mu": mu, "rho2": [], "commit": [], "expand_mask": [x for x in sh if ">expand_mask>" in x["path"] or x["path"].endswith(">expand_mask")],
           "sample_in_ball": [x for x in sh if ">sample_in_ball>" in x["path"]]}
    if len(mu) != 1:
        return out
    m = mu[0]
    for x in sh:
        it = x["items"]
        if x is m or x in out["expand_mask"] or x in out["sample_in_ball"]:
            continue
        if len(it) == 3 and [i["len"] for i in it] == [[32, 32], [32, 32], [64, 64]] and flows_from(it[2], job, m, 64):
            out["rho2"].append(x)
        elif len(it) == 2 and it[0]["len"] == [64, 64] and flows_from(it[0], job, m, 64):
            out["commit"].append(x)
    return out
