"""Abstract input classes for the hint section of a signature (FIPS 204 Alg. 21 HintBitUnpack).

The section has omega position bytes y[0..omega) followed by k counter bytes y[omega..omega+k).
Each class pins some bytes to an interval (everything else is ANY byte), so it stands for a huge
set of concrete byte strings; the expected verdict (must be rejected / must be accepted) holds
for every member by FIPS 204 Alg. 21.  The family is generated from (k, omega) by a fixed schedule
covering the malformation taxonomy: count above omega, count below the running index,
non-increasing positions (incl. equal), non-zero unused bytes - each at first / middle / last
polynomial or position - and canonical encodings.
"""


def canonical(k, omega, counts):
    """counts: cumulative counters c_0 <= ... <= c_{k-1} <= omega; positions strictly increasing per polynomial"""
    ov = {}
    prev = 0
    for i, c in enumerate(counts):
        n = c - prev
        for t in range(n):
            # separated intervals => strictly increasing for every member
            lo = (256 // max(n, 1)) * t
            ov[prev + t] = (lo, lo + max(0, (256 // max(n, 1)) - 2) if n > 1 else 255)
        prev = c
        ov[omega + i] = (c, c)
    for p in range(prev, omega):
        ov[p] = (0, 0)
    return ov


def families(k, omega):
    out = []
    polys = sorted(set([0, k // 2, k - 1]))
    # E1: a counter above omega (earlier counters 0 so that the scan reaches it) - every polynomial
    for i in range(k):
        ov = {omega + j: (0, 0) for j in range(i)}
        ov[omega + i] = (omega + 1, 255)
        out.append(("count-above-omega@poly%d" % i, "err", ov))
    # E2: a counter below the running index - every polynomial i >= 1, two prefix shapes
    for i in range(1, k):
        # (a) the first polynomial holds c positions, counters stay at c up to polynomial i-1
        c = min(5, omega)
        ov = {t: (t, t) for t in range(c)}
        for j in range(i):
            ov[omega + j] = (c, c)
        ov[omega + i] = (0, c - 1)
        out.append(("count-below-index@poly%d:front" % i, "err", ov))
        # (b) one position per polynomial: counters 1, 2, .., i ; then a counter in [0, i-1]
        if i <= omega:
            ov = {t: (7 * t, 7 * t) for t in range(i)}
            for j in range(i):
                ov[omega + j] = (j + 1, j + 1)
            ov[omega + i] = (0, i - 1)
            out.append(("count-below-index@poly%d:spread" % i, "err", ov))
            # boundary member: exactly one below the running index
            ov2 = dict(ov)
            ov2[omega + i] = (i - 1, i - 1)
            out.append(("count-below-index@poly%d:spread-boundary" % i, "err", ov2))
    # E3: two adjacent positions of one polynomial not strictly increasing (interval form, includes equality)
    for i in polys:
        for a in (0, 100, 255):
            n = 3
            counts = [0] * i + [n] * (k - i)
            ov = {omega + j: (counts[j], counts[j]) for j in range(i + 1)}
            # positions 0,1 increasing, then y[1] in [a,255], y[2] in [0,a]
            ov[0] = (0, 0) if a > 0 else (0, 0)
            ov[1] = (a, 255) if a > 0 else (0, 255)
            ov[2] = (0, a)
            if a == 0:
                ov[0] = (0, 0)
                ov[1] = (0, 0)   # y[0] >= y[1] already: equal positions
            out.append(("position-order@poly%d:a%d" % (i, a), "err", ov))
    # E4: a non-zero byte among the unused position bytes
    for c in sorted(set([0, 1, omega - 1])):
        for pos in sorted(set([c, (c + omega - 1) // 2, omega - 1])):
            if pos < c:
                continue
            ov = {}
            for t in range(c):
                ov[t] = (t, t)
            for j in range(k):
                ov[omega + j] = (c, c)
            ov[pos] = (1, 255)
            out.append(("nonzero-padding@%d:count%d" % (pos, c), "err", ov))
    # canonical encodings
    step = max(1, omega // k)
    for name, counts in (("empty", [0] * k), ("one-each", [min(omega, i + 1) for i in range(k)]), ("front-loaded", [min(omega, 7)] * k),
                         ("full", [min(omega, step * (i + 1)) for i in range(k - 1)] + [omega]), ("last-only", [0] * (k - 1) + [min(omega, 9)])):
        out.append(("canonical:%s" % name, "ok", canonical(k, omega, counts)))
    return out


def spec_string(ov, offset=0):
    return ";".join("%d:%d..%d" % (offset + p, lo, hi) for p, (lo, hi) in sorted(ov.items()))
