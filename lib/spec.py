"""FIPS 204 scalar definitions (the oracle side of C15), written from the standard, plain integers.

Every function here is the mathematical definition, not an implementation trick:
  mod_pm(m, a)           m mod+- a   : unique m' with m' = m (mod a), -a/2 < m' <= a/2
  power2round(r)         Alg. 35 (d = 13)
  decompose(r, g2)       Alg. 36
  high_bits / low_bits   Alg. 37 / 38
  make_hint(z, r, g2)    Alg. 39
  use_hint(h, r, g2)     Alg. 40
  coeff_from_three_bytes Alg. 14,  coeff_from_half_byte  Alg. 15
"""
Q = 8380417
D = 13


def mod_pm(m, a):
    r = m % a
    if r > a // 2:   # a odd: (a-1)/2 ; a even: a/2 is allowed (<=)
        r -= a
    return r


def power2round(r):
    rp = r % Q
    r0 = mod_pm(rp, 1 << D)
    return (rp - r0) >> D, r0


def decompose(r, g2):
    rp = r % Q
    r0 = mod_pm(rp, 2 * g2)
    if rp - r0 == Q - 1:
        return 0, r0 - 1
    return (rp - r0) // (2 * g2), r0


def high_bits(r, g2):
    return decompose(r, g2)[0]


def low_bits(r, g2):
    return decompose(r, g2)[1]


def make_hint(z, r, g2):
    return int(high_bits(r, g2) != high_bits(r + z, g2))


def use_hint(h, r, g2):
    m = (Q - 1) // (2 * g2)
    r1, r0 = decompose(r, g2)
    if h == 1 and r0 > 0:
        return (r1 + 1) % m
    if h == 1 and r0 <= 0:
        return (r1 - 1) % m
    return r1


def coeff_from_three_bytes(b0, b1, b2):
    b2p = b2 - 128 if b2 > 127 else b2
    z = (b2p << 16) + (b1 << 8) + b0
    return z if z < Q else None


def coeff_from_half_byte(b, eta):
    if eta == 2 and b < 15:
        return 2 - (b % 5)
    if eta == 4 and b < 9:
        return 4 - b
    return None


def breakpoints(f, slope, lo, hi):
    """points x in (lo, hi] where f(x) - slope*x differs from f(x-1) - slope*(x-1)  (brute force)"""
    out = []
    prev = f(lo) - slope * lo
    for x in range(lo + 1, hi + 1):
        cur = f(x) - slope * x
        if cur != prev:
            out.append(x)
            prev = cur
    return out
